/* vf/snprintf_stub.h -- dfcc mis-instruments variadic callees; map snprintf to a non-variadic TRUSTED stub
 * (C99 semantics for length and bounds only: returns the would-be length, writes at most z bytes incl. the NUL;
 * the digits themselves are libc's and are not modelled). */
#ifndef VERIF_SNPRINTF_STUB_H
#define VERIF_SNPRINTF_STUB_H
#if !defined VERIF_NATIVE
#include <stdio.h>
#include <stddef.h>
static int verif_snprintf(char *b, size_t z)
{
	int r;
	__CPROVER_assume(r >= 0 && r <= 64);
	if (z > 0) {
		size_t n = (size_t)r < z - 1 ? (size_t)r : z - 1;
		for (size_t i = 0; i < 64; i++) {
			if (i < n) { char c; b[i] = c; }
		}
		b[n] = '\0';
	}
	return r;
}
#define snprintf(b, z, ...) verif_snprintf((b), (z))
#endif
#endif
