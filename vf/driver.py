#!/usr/bin/env python3
"""vf/driver.py -- contract-verification driver for dateutils (/repo) with CBMC.

One obligation *group* = one goto-instrument --dfcc ... --enforce-contract f run
followed by a cbmc run (portfolio of back ends).  Groups live in
/verif/obligations/*.py.  A property's check runs every group tagged with it
plus the transitive closure of the contracts those groups assume (replace[]).

Exit codes: 0 all discharged (known findings reproduce), 1 violation,
2 undecided / infrastructure.
"""
import argparse, json, os, re, shutil, subprocess, sys, tempfile, time, glob, threading, signal, random
from concurrent.futures import ThreadPoolExecutor

ROOT = os.path.dirname(os.path.dirname(os.path.abspath(__file__)))
REPO = os.environ.get('VERIF_REPO', '/repo')
GUARD = 'DATEUTILS_VERIF'
NCPU = int(os.environ.get('VERIF_JOBS', str(os.cpu_count() or 4)))


class Slots:
    """counting allocator: acquire(n) blocks until n CPU slots are free (all-or-nothing, no hold-and-wait)"""

    def __init__(self, n):
        self.n, self.free, self.cv = n, n, threading.Condition()

    def acquire(self, k=1):
        k = min(k, self.n)
        with self.cv:
            while self.free < k:
                self.cv.wait()
            self.free -= k
        return k

    def release(self, k=1):
        with self.cv:
            self.free += k
            self.cv.notify_all()

    def __enter__(self):
        self.acquire(1)

    def __exit__(self, *a):
        self.release(1)


CPU_SEM = Slots(NCPU)
MEM_KB = int(os.environ.get('VERIF_MEM_KB', str(12 * 1024 * 1024)))

LIB_CFLAGS = ['-std=gnu11', '-DHAVE_CONFIG_H', '-I' + REPO + '/lib', '-I' + REPO + '/src',
              '-D_POSIX_C_SOURCE=200112L', '-D_XOPEN_SOURCE=600', '-D_BSD_SOURCE',
              '-D_DEFAULT_SOURCE', '-DDECLF=extern', '-DLIBDUT',
              '-DLOCALE_FILE="/usr/local/share/dateutils/locale"', '-D' + GUARD]
SRC_CFLAGS = ['-std=gnu11', '-DHAVE_CONFIG_H', '-I' + REPO + '/src', '-I' + REPO + '/lib',
              '-D_POSIX_C_SOURCE=200809L', '-D_XOPEN_SOURCE=700', '-D_BSD_SOURCE',
              '-D_DEFAULT_SOURCE', '-D_ALL_SOURCE', '-D_NETBSD_SOURCE', '-D' + GUARD]

# ---------------------------------------------------------------- registry
TUS = {}
GROUPS = {}
ORDER = []


def TU(name, src, cflags=None, pre=(), post=(), defs=(), extra_text='', native_link=(), static_tables=()):
    """A harness translation unit wrapping one real source file of /repo."""
    TUS[name] = dict(name=name, src=src, cflags=list(cflags or LIB_CFLAGS), pre=list(pre),
                     post=list(post), defs=list(defs), extra_text=extra_text, native_link=list(native_link),
                     static_tables=list(static_tables))


def G(id, tu, fn, props, ins=(), setup='', call=None, ret=None, pre=None, post=None,
      replace=(), loops=False, split=None, solvers=('cadical',), timeout=300, flags=(),
      min_obl=1, must=('postcondition',), unwind=None, bounded=None, enforce=True,
      native=True, tier='quick', body=None, extra_replace=(), note='', nondet_static=False, needs=None, contract=None, weight=1, optional=False,
      sweep=None, reach=True, defs=(), direct=False, fix=None, loopinv=None, reach_hint='', kind='contract', files=(), whitelist=()):
    """Register an obligation group.
    ins: list of (ctype, name) scalar harness inputs (named in_*).
    setup: C statements building the real argument values from the inputs.
    call: C expression calling the real function; ret: its C type (None = void).
    pre/post: C expressions (native replay) -- default PRE_<fn>(args)/POST_<fn>(ret,args).
    body: complete custom harness body (overrides ins/setup/call for CBMC; native off unless given).
    bounded: None for unbounded (proof) groups, else a dict(bound=..., why=...).
    """
    assert id not in GROUPS, id
    GROUPS[id] = dict(id=id, tu=tu, fn=fn, props=list(props), ins=list(ins), setup=setup, call=call,
                      ret=ret, pre=pre, post=post, replace=list(replace), loops=loops, split=split,
                      solvers=list(solvers), timeout=timeout, flags=list(flags), min_obl=min_obl,
                      must=list(must), unwind=unwind, bounded=bounded, enforce=enforce, native=native,
                      tier=tier, body=body, note=note, nondet_static=nondet_static, sweep=sweep, needs=needs or {}, contract=contract, weight=weight, optional=optional,
                      reach=reach, defs=list(defs), direct=direct, fix=dict(fix or {}), loopinv=loopinv, reach_hint=reach_hint, kind=kind, files=list(files), whitelist=list(whitelist))
    ORDER.append(id)


def ysplit(var, n=16, lo=1601, hi=4096):
    """n-way case split of a year-valued harness expression (harness-level assume, never in the contract)"""
    step = (hi - lo + n) // n
    out = []
    for i in range(n):
        a, b = lo + i * step, min(lo + (i + 1) * step - 1, hi)
        if a <= b:
            out.append(('%02d' % i, '(%s) >= %d && (%s) <= %d' % (var, a, var, b)))
    return out


def GS(id, tu, fn, props, splits, **kw):
    """register one group per split piece; a piece is (suffix, predicate) or (suffix, {var: value}) for split-by-assignment"""
    for sfx, pred in splits:
        if isinstance(pred, dict):
            G('%s.%s' % (id, sfx), tu, fn, props, fix=pred, **kw)
        else:
            G('%s.%s' % (id, sfx), tu, fn, props, split=pred, **kw)


def load_registry():
    if GROUPS:
        return
    env = dict(TU=TU, G=G, GS=GS, ysplit=ysplit, REPO=REPO, ROOT=ROOT, LIB_CFLAGS=LIB_CFLAGS, SRC_CFLAGS=SRC_CFLAGS)
    for f in sorted(glob.glob(os.path.join(ROOT, 'obligations', '*.py'))):
        with open(f) as fh:
            exec(compile(fh.read(), f, 'exec'), dict(env))


def cid(gid):
    return re.sub(r'[^A-Za-z0-9_]', '_', gid)


def enforcer_of(fn, tu):
    """group (same TU first) that enforces the contract of fn and is unbounded."""
    best = None
    for g in GROUPS.values():
        if g['fn'] == fn and g['enforce']:
            if g['tu'] == tu:
                return_same = g
                if best is None or best['tu'] != tu:
                    best = g
            elif best is None:
                best = g
    return best


def enforcers_of(fn, tu):
    """all groups that together enforce fn's contract (splits share fn)."""
    same = [g for g in GROUPS.values() if g['fn'] == fn and g['enforce'] and g['tu'] == tu]
    if same:
        return same
    return [g for g in GROUPS.values() if g['fn'] == fn and g['enforce']]


def closure(prop, tier, stop=()):
    """groups tagged with the property plus, transitively, the groups enforcing every contract they assume.
    A group may narrow the enforcers of an assumed contract to the cases it can reach (needs={fn: regex over group ids}; the
    case split of the enforcers is by the same input variable the group fixes).  In the quick tier enforcers registered as
    thorough-only are not run: they are returned in `deferred` and reported as assumptions of the quick run."""
    sel = [g for g in GROUPS.values() if prop in g['props'] and (tier == 'thorough' or g['tier'] == 'quick')]
    seen = {g['id'] for g in sel}
    todo = list(sel)
    missing = []
    deferred = {}
    while todo:
        g = todo.pop()
        for fn in g['replace']:
            if '/UNREACH_' in fn:
                continue  # requires(false) contract: replacing asserts the call is unreachable, nothing is assumed
            if fn in stop:
                continue  # assumed here, proved by another registered check (listed in the evidence)
            es = enforcers_of(fn, g['tu'])
            if fn in g['needs']:
                es = [e for e in es if re.search(g['needs'][fn], e['id'])]
            if not es:
                missing.append((g['id'], fn))
            for e in es:
                if tier != 'thorough' and e['tier'] != 'quick':
                    deferred.setdefault(fn, set()).add(e['id'])
                    continue
                if e['id'] not in seen:
                    seen.add(e['id'])
                    todo.append(e)
    out = [GROUPS[i] for i in ORDER if i in seen]
    return out, missing, {k: sorted(v) for k, v in deferred.items()}


# ---------------------------------------------------------------- known findings
def load_known():
    p = os.path.join(ROOT, 'known_findings.json')
    if not os.path.exists(p):
        return []
    with open(p) as f:
        return json.load(f).get('findings', [])


# ---------------------------------------------------------------- harness generation
PRELUDE_CBMC = '#include "%s/vf/prelude.h"\n' % ROOT


def harness_text(g, known, reach=False):
    name = ('r_' if reach else 'h_') + cid(g['id'])
    L = ['void %s(void)\n{' % name]
    if g['body'] is not None:
        # /*REACH*/ marks where the reach twin (only) may pin inputs to a concrete witness: the twin only has to show that the
        # precondition is satisfiable and the function returns, so pinning is sound there and makes the search cheap
        L.append(g['body'].replace('/*REACH*/', g['reach_hint'] if reach else ''))
    else:
        for (ty, nm) in g['ins']:
            L.append('\t%s %s;' % (ty, nm))
        for k, v in g['fix'].items():
            L.append('\t%s = %s; /* case split by assignment (lets symex prune the other branches) */' % (k, v))
        if g['setup']:
            L.append('\t' + g['setup'])
    if g['split']:
        L.append('\t__CPROVER_assume(%s);' % g['split'])
    for k in known:
        if k.get('group') == g['id'] and not k.get('fixed'):
            L.append('\t__CPROVER_assume(!(%s)); /* known finding, see known_findings.json */' % k['input_class'])
    if g['body'] is None and g['direct']:
        pre, post = default_pre_post(g)
        L.append('\t__CPROVER_assume(%s); /* direct mode: precondition of the contract */' % pre)
        if g['ret']:
            L.append('\t%s ret = %s;' % (g['ret'], g['call']))
        else:
            L.append('\t%s;' % g['call'])
        if not reach:
            L.append('\t__CPROVER_assert(%s, "postcondition %s (direct)");' % (post, g['fn']))
    elif g['body'] is None:
        L.append('\t%s;' % g['call'])
    if reach:
        L.append('\t__CPROVER_assert(0, "VERIF_REACH");')
    L.append('}\n')
    if g['body'] is not None and '@@CALL@@' in g['body']:
        # custom body with a marker for where assumes go: not used
        pass
    return '\n'.join(L)


def tu_text(tu, groups, known, native=False):
    t = TUS[tu]
    L = []
    if native:
        L.append('#define VERIF_NATIVE 1')
    for d in t['defs']:
        L.append('#define %s' % d)
    L.append('#include "%s/vf/prelude.h"' % ROOT)
    for p in t['pre']:
        L.append('#include "%s/%s"' % (ROOT, p))
    L.append('#include "%s/%s"' % (REPO, t['src']))
    for p in t['post']:
        L.append('#include "%s/%s"' % (ROOT, p))
    if t['extra_text']:
        L.append(t['extra_text'])
    if not native:
        for g in groups:
            if g['kind'] != 'contract':
                continue
            L.append(harness_text(g, known))
            if g['reach']:
                L.append(harness_text(g, known, reach=True))
    return '\n'.join(L) + '\n'


def default_pre_post(g):
    m = re.match(r'\s*([A-Za-z_0-9]+)\s*\((.*)\)\s*$', g['call'] or '', re.S)
    args = m.group(2).strip() if m else ''
    pre = g['pre'] if g['pre'] is not None else 'PRE_%s(%s)' % (g['fn'], args)
    if g['post'] is not None:
        post = g['post']
    elif g['ret']:
        post = 'POST_%s(ret%s)' % (g['fn'], (', ' + args) if args else '')
    else:
        post = 'POST_%s(%s)' % (g['fn'], args)
    return pre, post


def native_text(g, known, values=None, sweep=0, seed=0):
    """native replay / sweep program against the real code."""
    pre, post = default_pre_post(g)
    L = [tu_text(g['tu'], [], known, native=True)]
    L.append('#include <stdio.h>\n#include <string.h>\n#include <stdlib.h>')
    L.append('static unsigned long long vf_rs = %dULL * 2654435761ULL + 88172645463325252ULL;' % (seed + 1))
    L.append('static unsigned long long vf_rnd(void){ vf_rs ^= vf_rs << 13; vf_rs ^= vf_rs >> 7; vf_rs ^= vf_rs << 17; return vf_rs; }')
    L.append('#undef main\nint main(void)\n{')
    for (ty, nm) in g['ins']:
        L.append('\t%s %s = 0;' % (ty, nm))
    body = []
    if g['setup']:
        body.append('\t\t' + g['setup'])
    if g['split'] and not values:
        body.append('\t\tif (!(%s)) continue;' % g['split'])
    body.append('\t\tif (!(%s)) { npre++; if (!sweep) { printf("PRE does not hold for these inputs\\n"); return 3; } continue; }' % pre)
    if g['ret']:
        body.append('\t\t%s ret = %s;' % (g['ret'], g['call']))
    else:
        body.append('\t\t%s;' % g['call'])
    body.append('\t\tnrun++;')
    prt = ' '.join('%s=%%lld' % nm for (_, nm) in g['ins'])
    prta = ''.join(', (long long)%s' % nm for (_, nm) in g['ins'])
    body.append('\t\tif (!(%s)) {' % post)
    body.append('\t\t\tprintf("POST FAILS on real code: %s\\n"%s);' % (prt, prta))
    if g['ret']:
        body.append('\t\t\t{ unsigned char rb[sizeof(ret)]; memcpy(rb, &ret, sizeof(ret)); printf("returned bytes (LE):"); for (unsigned i = 0; i < sizeof(ret); i++) printf(" %02x", rb[i]); printf("\\n"); }')
    body.append('\t\t\treturn 1;\n\t\t}')
    if values is not None:
        L.append('\tint sweep = 0; long nrun = 0, npre = 0;')
        for (ty, nm) in g['ins']:
            L.append('\t%s = (%s)%sLL;' % (nm, ty, values.get(nm, 0)))
        L.append('\tdo {')
        L.extend(body)
        L.append('\t} while (0);')
        L.append('\tprintf("POST holds on real code for these inputs\\n"); return 0;')
    else:
        L.append('\tint sweep = 1; long nrun = 0, npre = 0;')
        L.append('\tfor (long it = 0; it < %dL; it++) {' % sweep)
        sw = g['sweep'] or {}
        for (ty, nm) in g['ins']:
            if nm in g['fix']:
                L.append('\t\t%s = (%s)(%s);' % (nm, ty, g['fix'][nm]))
            elif nm in sw:
                L.append('\t\t%s = (%s)(%s);' % (nm, ty, sw[nm].replace('RND', 'vf_rnd()')))
            else:
                L.append('\t\t%s = (%s)vf_rnd();' % (nm, ty))
        L.extend(body)
        L.append('\t}')
        L.append('\tprintf("sweep: %ld runs satisfied PRE, POST held on all (%ld rejected by PRE)\\n", nrun, npre); return 0;')
    L.append('}')
    return '\n'.join(L) + '\n'


# ---------------------------------------------------------------- process helpers
def run(cmd, timeout=None, cwd=None, mem_kb=None, stdin=None):
    def pre():
        os.setsid()
        if mem_kb:
            import resource
            resource.setrlimit(resource.RLIMIT_AS, (mem_kb * 1024, mem_kb * 1024))
    t0 = time.time()
    p = subprocess.Popen(cmd, cwd=cwd, stdout=subprocess.PIPE, stderr=subprocess.STDOUT,
                         preexec_fn=pre, text=True, errors='replace')
    try:
        out, _ = p.communicate(timeout=timeout)
        return p.returncode, out, time.time() - t0
    except subprocess.TimeoutExpired:
        try:
            os.killpg(p.pid, signal.SIGKILL)
        except Exception:
            pass
        out, _ = p.communicate()
        return 'timeout', out or '', time.time() - t0


class Proc:
    """a killable background process (one portfolio member)"""

    def __init__(self, cmd, cwd, mem_kb):
        def pre():
            os.setsid()
            import resource
            resource.setrlimit(resource.RLIMIT_AS, (mem_kb * 1024, mem_kb * 1024))
        self.t0 = time.time()
        self.outf = tempfile.TemporaryFile(mode='w+', dir=cwd)
        self.p = subprocess.Popen(cmd, cwd=cwd, stdout=self.outf, stderr=subprocess.STDOUT, preexec_fn=pre)

    def poll(self):
        return self.p.poll()

    def kill(self):
        try:
            os.killpg(self.p.pid, signal.SIGKILL)
        except Exception:
            pass
        try:
            self.p.wait(timeout=5)
        except Exception:
            pass

    def output(self):
        self.outf.seek(0)
        return self.outf.read()


SOLVER_ARGS = {
    'minisat': [],
    'cadical': ['--sat-solver', 'cadical'],
    'kissat': ['--external-sat-solver', 'kissat'],
    'cvc5': ['--cvc5'],
    'z3': ['--z3'],
    'z3new': ['--smt2', '--external-smt2-solver', 'z3-new'],
}

LIB_PROP_RE = re.compile(r'^(__CPROVER_contracts_|__CPROVER_|memcpy\.|memset\.|malloc\.|free\.|strlen\.|memmove\.|calloc\.|realloc\.)')


def parse_cbmc_json(out):
    """returns (results:list of dict(property,status,description,trace,loc), messages:list, prog_status)"""
    # cbmc --json-ui prints one JSON array
    i = out.find('[')
    results, msgs, status = [], [], None
    try:
        data = json.loads(out[i:])
    except Exception:
        # truncated (killed) output
        return None, [out[-2000:]], None
    for e in data:
        if 'messageText' in e:
            msgs.append('%s: %s' % (e.get('messageType', ''), e['messageText']))
        if 'result' in e:
            for r in e['result']:
                results.append(dict(property=r.get('property'), status=r.get('status'),
                                    description=r.get('description', ''),
                                    loc=r.get('sourceLocation', {}), trace=r.get('trace')))
        if 'cProverStatus' in e:
            status = e['cProverStatus']
    return results, msgs, status


def trace_inputs(trace):
    vals = {}
    for st in trace or []:
        if st.get('stepType') == 'assignment':
            lhs = st.get('lhs', '')
            if lhs.startswith('in_') and re.match(r'^in_[A-Za-z0-9_]+$', lhs):
                v = st.get('value', {})
                if 'data' in v:
                    d = v['data']
                    d = re.sub(r'[uUlL]+$', '', d)
                    if d in ('TRUE', 'true'):
                        d = '1'
                    if d in ('FALSE', 'false'):
                        d = '0'
                    vals[lhs] = d
    return vals


# ---------------------------------------------------------------- loop contracts (kept in /verif, attached by loop ordinal)
def make_loop_file(ctx, g, gb, c):
    """loopinv = {function: [dict(id=<loop ordinal>, inv=<C expr>, dec=<C expr>|None, assigns=<str>|None, vars={name: symbol})]}
    The invariant text is macro-expanded with the spec headers (goto-instrument does not preprocess it) and local
    variable names are mapped to the symbols of the current goto binary (fails -> undecided, never a violation)."""
    t = TUS[g['tu']]
    src = os.path.join(ctx.work, 'lc_%s.c' % c)
    exprs = []
    for fn, loops in g['loopinv'].items():
        for lp in loops:
            exprs.append(lp['inv'])
            exprs.append(lp.get('dec') or '0')
    with open(src, 'w') as f:
        for p in t['pre']:
            if p.startswith('spec/'):
                f.write('#include "%s/%s"\n' % (ROOT, p))
        f.write('#include "%s/spec/iso.h"\n' % ROOT)
        for i, e in enumerate(exprs):
            f.write('VERIF_EXPAND_%d %s\n' % (i, e.replace('\n', ' ')))
    rc, out, _ = run(['gcc', '-E', '-P', src], timeout=60)
    if rc != 0:
        return None, out[-500:]
    exp = {}
    for l in out.splitlines():
        m = re.match(r'VERIF_EXPAND_(\d+) (.*)$', l)
        if m:
            exp[int(m.group(1))] = m.group(2).strip()
    rc, st, _ = run(['goto-instrument', '--show-symbol-table', gb], timeout=120)
    syms = re.findall(r'^Symbol\.+: (\S+)$', st, re.M)
    funcs = []
    k = 0
    for fn, loops in g['loopinv'].items():
        ent = []
        for lp in loops:
            inv, dec = exp[k], exp[k + 1]
            k += 2
            names = set(re.findall(r'\b[A-Za-z_]\w*\b(?!\s*\()', inv + ' ' + dec + ' ' + (lp.get('assigns') or '')))
            smap = []
            for n in sorted(names):
                if n in (lp.get('vars') or {}):
                    smap.append('%s,%s' % (n, lp['vars'][n]))
                    continue
                cands = [x for x in syms if x == '%s::%s' % (fn, n) or re.match(r'^%s::(\d+::)+%s$' % (re.escape(fn), re.escape(n)), x)]
                if len(cands) == 1:
                    smap.append('%s,%s' % (n, cands[0]))
                elif len(cands) > 1:
                    return None, 'ambiguous local %s in %s: %s (give vars= mapping)' % (n, fn, cands)
            e = {'loop_id': str(lp['id']), 'invariants': inv, 'symbol_map': ';'.join(smap)}
            if lp.get('dec'):
                e['decreases'] = dec
            if lp.get('assigns'):
                e['assigns'] = lp['assigns']
            ent.append(e)
        funcs.append({fn: ent})
    lf = os.path.join(ctx.work, 'lc_%s.json' % c)
    with open(lf, 'w') as f:
        json.dump({'sources': [], 'functions': funcs}, f, indent=1)
    return lf, ''


# ---------------------------------------------------------------- the run of one group
class Ctx:
    def __init__(self, work, tier, seed, known, verbose):
        self.work, self.tier, self.seed, self.known, self.verbose = work, tier, seed, known, verbose
        self.objs = {}
        self.lock = threading.Lock()
        self.loglines = []

    def log(self, s):
        with self.lock:
            self.loglines.append(s)
            if self.verbose:
                print(s, flush=True)


def compile_tu(ctx, tu, groups):
    """goto-cc -c the harness TU (real source + contracts + harnesses). returns obj path or raises."""
    src = os.path.join(ctx.work, 'tu_%s.c' % tu)
    with open(src, 'w') as f:
        f.write(tu_text(tu, groups, ctx.known))
    obj = os.path.join(ctx.work, 'tu_%s.o' % tu)
    rc, out, dt = run(['goto-cc'] + TUS[tu]['cflags'] + ['-c', src, '-o', obj], timeout=300)
    if rc != 0:
        return None, out
    return obj, out


def run_group(ctx, g, obj):
    """returns dict(id, status in {'ok','fail','undecided'}, results, solver, secs, reason, ...)"""
    gid = g['id']
    c = cid(gid)
    res = dict(id=gid, fn=g['fn'], status='undecided', results=[], solver=None, secs=0.0, reason='',
               bounded=g['bounded'], n_user=0, n_all=0, reach=None, log='')
    t_start = time.time()
    if g['kind'] == 'undefined':
        return run_undefined(ctx, g, res, t_start)

    def build(entry, noloops=False):
        # the bounded variant without loop contracts may be built while the loop-contract binary is in use: separate files
        a = os.path.join(ctx.work, '%s_%s%s.a.gb' % (entry, c, '.nl' if noloops else ''))
        b = os.path.join(ctx.work, '%s_%s%s.b.gb' % (entry, c, '.nl' if noloops else ''))
        rc, out, _ = run(['goto-cc', '--function', entry, obj, '-o', a], timeout=120)
        if rc != 0:
            return None, 'link failed: ' + out[-1500:]
        if g['direct']:
            return a, 'direct mode (no dfcc): statics keep their initialisers'
        cmd = ['goto-instrument', '--dfcc', entry]
        if g['enforce']:
            # a function may carry several small contracts (one per case): contract=<name of the declaration carrying it>
            cmd += ['--enforce-contract', g['fn'] + ('/' + g['contract'] if g.get('contract') else '')]
        for r in g['replace']:
            cmd += ['--replace-call-with-contract', r]
        if (g['loops'] or g['loopinv']) and not noloops:
            cmd += ['--apply-loop-contracts']
        if g['loopinv'] and not noloops:
            lf, err = make_loop_file(ctx, g, a, c)
            if lf is None:
                return None, 'loop contract file: ' + err
            cmd += ['--loop-contracts-file', lf]
        if g['nondet_static']:
            cmd += ['--nondet-static']
        cmd += [a, b]
        rc, out, _ = run(cmd, timeout=300, mem_kb=MEM_KB)
        if rc != 0:
            return None, 'goto-instrument failed: ' + out[-3000:]
        return b, out

    with CPU_SEM:
        b, iout = build('h_' + c)
    fallback = False
    if b is None and g['loopinv']:
        # the loop structure the contracts were written for is gone (e.g. loops rewritten): fall back to a bounded
        # run without loop contracts; only counterexamples that replay on the real code are reported from it
        with CPU_SEM:
            b, iout2 = build('h_' + c, noloops=True)
        fallback = b is not None
        res['fallback'] = 'loop contracts could not be attached (%s); bounded fallback without them' % iout[-200:].replace('\n', ' ')
    if b is None:
        res['reason'] = iout
        return res
    res['log'] += iout[-500:]

    base = ['cbmc', b, '--json-ui', '--trace', '--object-bits', '12'] + g['flags']
    if g['direct']:
        base += ['--drop-unused-functions']
    if fallback:
        base += ['--unwind', '30']
    elif not g['unwind'] and not g['loops'] and not g['loopinv']:
        # functions under contract here are meant to be loop-free after callee replacement; a stray reachable loop
        # must not hang symex: unwind with assertions (complete when they pass; a failing one means undecided)
        base += ['--unwind', '24', '--unwinding-assertions']
    if g['unwind']:
        uw = g['unwind']
        if isinstance(uw, int):
            base += ['--unwind', str(uw), '--unwinding-assertions']
        else:
            base += ['--unwindset', ','.join('%s:%d' % (k, v) for k, v in uw.items()), '--unwinding-assertions']
            # every unwindset entry must name an existing loop (a mismatch silently means unbounded)
            rc, lo, _ = run(['cbmc', b, '--show-loops'], timeout=120)
            for k in uw:
                if ('Loop ' + k + ':') not in lo and (k + ':') not in lo:
                    res['reason'] = 'unwindset names unknown loop %s' % k
                    return res
    solvers = list(g['solvers'])
    if ctx.tier == 'thorough' and len(solvers) < 2:
        solvers = solvers + [s for s in ('cadical', 'cvc5') if s not in solvers][:1]
    # portfolio: the first definite answer wins; if more than one back end finishes their answers must agree (checked below)
    need_agree = 1

    procs = {}
    # loop-contract groups: a bounded run without the loop contracts (unwind 30) is started alongside as a bug finder, so that a
    # change that makes the inductive proof run into its time-out is still reported within the quick budget; its answer is only
    # used when it FAILS a postcondition (and then only as a violation if the counterexample replays natively)
    fbproc = None
    fb_started = False
    if g['loopinv'] and not fallback:
        with CPU_SEM:
            fbbin, _ = build('h_' + c, noloops=True)
        if fbbin is not None:
            fb_started = True

    def fb_result(out, rc):
        fres, _, fst = parse_cbmc_json(out) if rc in (0, 10) else (None, None, None)
        ffail = [r for r in (fres or []) if r['status'] == 'FAILURE' and 'postcondition' in (r['property'] or '')]
        if not ffail:
            return None
        res['fallback'] = 'bounded run (unwind 30) without loop contracts found a counterexample before the loop-contract proof finished'
        res['status'] = 'fail'
        res['solver'] = 'cadical'
        res['results'] = [dict(property=r['property'], status=r['status'], description=r['description'], line=r['loc'].get('line'),
                               file=r['loc'].get('file'), inputs=trace_inputs(r['trace'])) for r in ffail]
        res['failed'] = res['results']
        res['secs'] = time.time() - t_start
        return res
    # weight: CPU slots reserved per back end; memory-hungry groups (5-10 GB each) reserve several so that fewer of them run side by side
    slots = CPU_SEM.acquire(min(NCPU, len(solvers) * g.get('weight', 1)))
    for s in solvers:
        procs[s] = Proc(base + SOLVER_ARGS[s], ctx.work, MEM_KB)
    if fb_started:
        # started only now, together with the proof: its 300 s budget must not run while the group waits for CPU slots
        fbproc = Proc(['cbmc', fbbin, '--json-ui', '--trace', '--object-bits', '12', '--unwind', '30'] + g['flags'] + SOLVER_ARGS['cadical'], ctx.work, MEM_KB)
    done = {}
    # thorough: triple budget, except for optional groups (known not to discharge within their budget: no point in waiting three times as long)
    deadline = time.time() + g['timeout'] * (3 if (ctx.tier == 'thorough' and not g.get('optional')) else 1)
    try:
        while procs and time.time() < deadline:
            if fbproc is not None and (fbproc.poll() is not None or time.time() - fbproc.t0 > 300):
                if fbproc.poll() is not None:
                    fbr = fb_result(fbproc.output(), fbproc.poll())
                    if fbr is not None:
                        fbproc = None
                        return fbr
                else:
                    fbproc.kill()
                fbproc = None
            for s, p in list(procs.items()):
                rc = p.poll()
                if rc is not None:
                    out = p.output()
                    dt = time.time() - p.t0
                    del procs[s]
                    results, msgs, status = parse_cbmc_json(out)
                    if results is None or status is None or rc not in (0, 10):
                        done[s] = dict(kind='error', out=out, secs=dt, msgs=msgs)
                    else:
                        bad = [m for m in msgs if re.search(r'ignoring forall|ignoring exists|no body for function|SMT2.*rror|non-constant', m)]
                        nobody = [m for m in bad if 'no body for function' in m]
                        done[s] = dict(kind='result', results=results, status=status, secs=dt, msgs=msgs, bad=bad)
            definite = [s for s, d in done.items() if d['kind'] == 'result' and not [m for m in d['bad'] if 'no body' not in m]]
            fails = [s for s in definite if done[s]['status'] == 'failure']
            if fails or len(definite) >= min(need_agree, len(solvers)):
                break
            if not procs:
                break
            time.sleep(0.05)
    finally:
        for s, p in procs.items():
            p.kill()
        if fbproc is not None:
            fbproc.kill()
        CPU_SEM.release(slots)

    definite = [s for s, d in done.items() if d['kind'] == 'result']
    res['secs'] = time.time() - t_start
    if not definite and g['loopinv'] and not fallback and not fb_started:
        # the loop-contract proof did not finish (e.g. the loop structure changed so that the invariants sit on the wrong
        # loops): bounded search without loop contracts for a counterexample that replays on the real code
        with CPU_SEM:
            fb, _ = build('h_' + c, noloops=True)
        if fb is not None:
            rc, out, dt = run(['cbmc', fb, '--json-ui', '--trace', '--object-bits', '12', '--unwind', '30'] + g['flags'] + SOLVER_ARGS['cadical'],
                              timeout=300, cwd=ctx.work, mem_kb=MEM_KB)
            fres, _, fst = parse_cbmc_json(out) if rc in (0, 10) else (None, None, None)
            ffail = [r for r in (fres or []) if r['status'] == 'FAILURE' and 'postcondition' in (r['property'] or '')]
            if ffail:
                res['fallback'] = 'loop-contract proof timed out; bounded run (unwind 30) without loop contracts found a counterexample'
                res['status'] = 'fail'
                res['solver'] = 'cadical'
                res['results'] = [dict(property=r['property'], status=r['status'], description=r['description'], line=r['loc'].get('line'),
                                       file=r['loc'].get('file'), inputs=trace_inputs(r['trace'])) for r in ffail]
                res['failed'] = res['results']
                res['secs'] = time.time() - t_start
                return res
    if not definite:
        errs = '; '.join('%s: %s' % (s, (d.get('msgs') or [''])[-1][-300:] if d.get('msgs') else d.get('out', '')[-300:]) for s, d in done.items())
        res['reason'] = 'no back end answered within %ds (%s)' % (g['timeout'], errs or 'timeout')
        return res
    # prefer a failing answer (gives trace), else the fastest success
    fails = [s for s in definite if done[s]['status'] == 'failure']
    win = fails[0] if fails else sorted(definite, key=lambda s: done[s]['secs'])[0]
    d = done[win]
    res['solver'] = win
    res['solver_secs'] = d['secs']
    res['agree'] = sorted(definite)
    if ctx.tier == 'thorough' and not fails:
        sts = {done[s]['status'] for s in definite}
        if len(sts) > 1:
            res['reason'] = 'back ends disagree: %s' % {s: done[s]['status'] for s in definite}
            return res
    bad = [m for m in d['bad'] if 'no body for function' not in m]
    nobody = [m for m in d['bad'] if 'no body for function' in m]
    if bad:
        res['reason'] = 'unsound-log-scan: ' + '; '.join(bad)[:500]
        return res
    allowed_nobody = set(g.get('allow_nobody', []))
    res['nobody'] = nobody
    results = d['results']
    res['n_all'] = len(results)
    user = [r for r in results if not LIB_PROP_RE.match(r['property'] or '')]
    res['n_user'] = len(user)
    res['results'] = [dict(property=r['property'], status=r['status'], description=r['description'],
                           line=r['loc'].get('line'), file=r['loc'].get('file'),
                           inputs=trace_inputs(r['trace']) if r['status'] == 'FAILURE' else None)
                      for r in results]
    # vacuity guards
    props = [r['property'] or '' for r in results]
    props = [(r['property'] or '') + ' ' + (r['description'] or '') for r in results]
    for m in g['must']:
        if not any(m in p for p in props):
            res['reason'] = 'vacuity: no obligation matching %r generated (contract dropped?)' % m
            return res
    if (g['loops'] or g['loopinv']) and not fallback and not any('loop_invariant_step' in p or 'loop_invariant_base' in p for p in props):
        res['reason'] = 'vacuity: loop contracts requested but no loop_invariant obligations generated'
        return res
    if len(user) < g['min_obl']:
        res['reason'] = 'vacuity: only %d obligations (< %d expected)' % (len(user), g['min_obl'])
        return res
    failed = [r for r in res['results'] if r['status'] == 'FAILURE']
    uw_failed = [r for r in failed if '.unwind.' in (r['property'] or '') and not g['unwind']]
    if uw_failed:
        res['reason'] = 'a loop was reached that has no loop contract and is not replaced by a contract: %s' % uw_failed[0]['property']
        return res
    if failed:
        res['status'] = 'fail'
        res['failed'] = failed
        return res
    if fallback:
        res['reason'] = res.get('fallback', '') + ': no counterexample within the bound, property undecided'
        return res
    if any(r['status'] not in ('SUCCESS',) for r in res['results']):
        res['reason'] = 'unexpected statuses: %s' % sorted({r['status'] for r in res['results']})
        return res
    # reachability twin: precondition satisfiable and function returns
    if g['reach']:
        with CPU_SEM:
            rb, rout = build('r_' + c)
            if rb is None:
                res['reason'] = 'reach twin: ' + rout
                return res
            rbase = ['cbmc', rb, '--json-ui', '--trace', '--object-bits', '12', '--no-standard-checks',
                     '--no-built-in-assertions', '--drop-unused-functions', '--property', 'r_%s.assertion.1' % c]
            if g['unwind']:
                uw = g['unwind']
                rbase += (['--unwind', str(uw)] if isinstance(uw, int) else
                          ['--unwindset', ','.join('%s:%d' % (k, v) for k, v in
                                                   {kk.replace('h_' + c, 'r_' + c): vv for kk, vv in uw.items()}.items())])
            if g['reach'] == 'full':
                # some instances are easier for the solver with all checks in place: same flags as the main run, stop at the first failure
                rbase = ['cbmc', rb, '--json-ui', '--trace', '--object-bits', '12', '--stop-on-fail'] + g['flags']
                if not g['unwind'] and not g['loops'] and not g['loopinv']:
                    rbase += ['--unwind', '24']
            rr = None
            for rs in dict.fromkeys([win, 'cadical', 'z3']):
                rc, out, dt = run(rbase + SOLVER_ARGS[rs], timeout=min(g['timeout'], 600), cwd=ctx.work, mem_kb=MEM_KB)
                rr, _, st = parse_cbmc_json(out) if rc in (0, 10) else (None, None, None)
                if rr and [r for r in rr if 'VERIF_REACH' in (r['description'] or '')]:
                    break
        reach = [r for r in (rr or []) if 'VERIF_REACH' in (r['description'] or '')]
        if not reach:
            res['reason'] = 'reach twin gave no answer (%s)' % (rc,)
            return res
        if reach[0]['status'] != 'FAILURE':
            res['reason'] = 'vacuity: end of %s unreachable under its precondition (contradictory requires/assume?)' % g['fn']
            return res
        res['reach'] = trace_inputs(reach[0]['trace'])
    res['status'] = 'ok'
    res['secs'] = time.time() - t_start
    return res


def run_undefined(ctx, g, res, t_start):
    """supporting static fact: the set of external (undefined) functions of a set of real source files equals a committed whitelist"""
    objs = []
    with CPU_SEM:
        for f in g['files']:
            o = os.path.join(ctx.work, 'uf_%s_%s.o' % (cid(g['id']), cid(f)))
            rc, out, _ = run(['goto-cc'] + TUS[g['tu']]['cflags'] + ['-c', os.path.join(REPO, f), '-o', o], timeout=300)
            if rc != 0:
                res['reason'] = 'goto-cc failed on %s: %s' % (f, out[-500:])
                return res
            objs.append(o)
        gb = os.path.join(ctx.work, 'uf_%s.gb' % cid(g['id']))
        rc, out, _ = run(['goto-cc'] + objs + ['-o', gb], timeout=300)
        if rc != 0:
            res['reason'] = 'link failed: ' + out[-500:]
            return res
        rc, out, _ = run(['goto-instrument', '--list-undefined-functions', gb], timeout=300)
    names = sorted({l.strip() for l in out.splitlines() if re.match(r'^[A-Za-z_][A-Za-z0-9_]*$', l.strip()) and not l.startswith('__CPROVER')})
    wl = set(g['whitelist'])
    res['results'] = [dict(property='undefined_function.%s' % n, status='SUCCESS' if n in wl else 'FAILURE',
                           description='external function %s called by %s is %s the committed whitelist' % (n, ', '.join(g['files']), 'in' if n in wl else 'NOT in'),
                           line=None, file=None, inputs=None) for n in names]
    res['n_user'] = res['n_all'] = len(names)
    res['solver'] = 'goto-instrument --list-undefined-functions'
    res['secs'] = res['solver_secs'] = time.time() - t_start
    bad = [r for r in res['results'] if r['status'] == 'FAILURE']
    if bad:
        res['status'] = 'fail'
        res['failed'] = bad
    else:
        res['status'] = 'ok'
    return res


# ---------------------------------------------------------------- native replay
def native_build_run(ctx, g, text, tag, timeout=600):
    src = os.path.join(ctx.work, 'nat_%s_%s.c' % (cid(g['id']), tag))
    exe = src[:-2]
    with open(src, 'w') as f:
        f.write(text)
    cf = [x for x in TUS[g['tu']]['cflags']]
    extra = [os.path.join(REPO, x) for x in TUS[g['tu']]['native_link']]
    rc, out, _ = run(['gcc', '-O1', '-w'] + cf + [src] + extra + ['-o', exe, '-lm'], timeout=300)
    if rc != 0:
        return 'build-failed', out[-2000:]
    rc, out, _ = run([exe], timeout=timeout)
    return rc, out


def replay_native(ctx, g, values):
    if not g['native'] or g['body'] is not None or not g['call']:
        return None
    rc, out = native_build_run(ctx, g, native_text(g, ctx.known, values=values), 'replay')
    return dict(rc=rc, out=out.strip()[-1500:])


def sweep_native(ctx, g, n):
    if not g['native'] or g['body'] is not None or not g['call']:
        return None
    rc, out = native_build_run(ctx, g, native_text(g, ctx.known, sweep=n, seed=ctx.seed), 'sweep')
    return dict(rc=rc, out=out.strip()[-1500:])


# ---------------------------------------------------------------- assumption scan
def scan_assumptions():
    hits = []
    for d in ('contracts', 'spec', 'obligations', 'vf'):
        for f in sorted(glob.glob(os.path.join(ROOT, d, '*'))):
            if not os.path.isfile(f) or f.endswith('.pyc') or f.endswith('driver.py'):
                continue
            for i, l in enumerate(open(f, errors='replace'), 1):
                if '__CPROVER_assume' in l and not l.strip().startswith(('/*', '*', '#', '//')):
                    hits.append('%s:%d: %s' % (os.path.relpath(f, ROOT), i, l.strip()[:140]))
    return hits


# ---------------------------------------------------------------- property meta
def load_meta():
    p = os.path.join(ROOT, 'obligations', 'properties_meta.json')
    with open(p) as f:
        return json.load(f)


# ---------------------------------------------------------------- main check
def check_property(pid, tier, seed, verbose=False, only=None, keep=False):
    t0 = time.time()
    load_registry()
    meta = load_meta().get(pid, {})
    known = [k for k in load_known()]
    groups, missing, deferred = closure(pid, tier, stop=set(meta.get('closure_stop', {})))
    if only:
        groups = [g for g in groups if re.search(only, g['id'])]
    os.makedirs(os.path.join(ROOT, '.work'), exist_ok=True)
    work = tempfile.mkdtemp(prefix='%s_' % pid, dir=os.path.join(ROOT, '.work'))
    ctx = Ctx(work, tier, seed, known, verbose)
    evid_dir = os.path.join(ROOT, 'evidence')
    os.makedirs(evid_dir, exist_ok=True)
    replay_dir = os.path.join(ROOT, 'replays')
    os.makedirs(replay_dir, exist_ok=True)
    undecided, violations, kf_lines = [], [], []
    optional_undecided = []
    results = []
    if not only:
        for f in glob.glob(os.path.join(replay_dir, '%s_*.json' % pid)):
            os.unlink(f)
    try:
        if not groups:
            undecided.append('no obligation groups registered for %s' % pid)
        for (gid, fn) in missing:
            undecided.append('group %s assumes the contract of %s which no group enforces' % (gid, fn))
        # generated sources present?
        for must in ('lib/fmt-special.c', 'lib/leap-seconds.def', 'src/config.h', 'lib/version.c'):
            if not os.path.exists(os.path.join(REPO, must)):
                undecided.append('generated source %s missing: run setup (make -C /repo)' % must)
        if undecided:
            raise StopIteration
        # compile each TU once
        by_tu = {}
        for g in groups:
            by_tu.setdefault(g['tu'], []).append(g)
        objs = {}

        def comp(tu):
            with CPU_SEM:
                return tu, compile_tu(ctx, tu, by_tu[tu])
        with ThreadPoolExecutor(max_workers=NCPU) as ex:
            for tu, (obj, out) in ex.map(comp, list(by_tu)):
                if obj is None:
                    undecided.append('goto-cc failed on harness TU %s (source no longer matches contracts?):\n%s' % (tu, out[-3000:]))
                objs[tu] = obj
        if undecided:
            raise StopIteration
        # heavy first
        order = sorted(groups, key=lambda g: -g['timeout'])

        def one(g):
            r = run_group(ctx, g, objs[g['tu']])
            ctx.log('[%s] %-40s %-9s %6.1fs solve=%5.1fs %s %s' % (pid, g['id'], r['status'], r['secs'], r.get('solver_secs', 0.0), r.get('solver') or '', (r['reason'] or '')[:200].replace('\n', ' ')))
            return r
        with ThreadPoolExecutor(max_workers=NCPU) as ex:
            results = list(ex.map(one, order))
        rmap = {r['id']: r for r in results}
        results = [rmap[g['id']] for g in groups]

        # ---- known findings: witness must still fail natively
        for k in known:
            if k.get('fixed'):
                continue
            if pid not in k.get('properties', []):
                continue
            g = GROUPS.get(k['group'])
            if g is None or g['id'] not in rmap:
                continue
            rp = replay_native(ctx, g, k['witness'])
            if rp and rp['rc'] == 1 and any(k['what_fails'] in l for l in kf_lines):
                continue
            if rp and rp['rc'] == 1:
                kf_lines.append('KNOWN-FINDING: property=%s %s [witness %s still fails on the real code]' % (pid, k['what_fails'], k['witness']))
            elif rp and rp['rc'] == 0:
                kf_lines.append('NOTE: known finding for %s no longer reproduces (%s): update known_findings.json' % (pid, k['what_fails']))
            else:
                undecided.append('known-finding witness replay for %s could not be run: %s' % (k['group'], rp))

        # ---- failures -> violations with replay
        for r in results:
            if r['status'] == 'undecided':
                if GROUPS[r['id']].get('optional') and 'no back end answered' in (r['reason'] or ''):
                    # registered as "did not discharge within the budget when it was written": a timeout is reported in the
                    # evidence and on stdout, it does not change the exit status (nothing was found, nothing is claimed)
                    optional_undecided.append('%s: %s' % (r['id'], r['reason']))
                else:
                    undecided.append('%s: %s' % (r['id'], r['reason']))
            if r['status'] != 'fail':
                continue
            g = GROUPS[r['id']]
            for fobl in r['failed'][:3]:
                rp = None
                vals = fobl.get('inputs') or {}
                is_post = 'postcondition' in (fobl['property'] or '') or 'assertion' in (fobl['property'] or '')
                if vals and g['ins']:
                    rp = replay_native(ctx, g, vals)
                found = rp is not None and rp['rc'] == 1
                if r.get('fallback') and not found:
                    undecided.append('%s: %s; counterexample did not replay natively' % (r['id'], r['fallback']))
                    break
                sw = None
                if not found:
                    sw = sweep_native(ctx, g, 3000000 if tier == 'quick' else 30000000)
                    if sw and sw['rc'] == 1:
                        found = True
                path = os.path.join(replay_dir, '%s_%s_%s.json' % (pid, cid(r['id']), re.sub(r'[^A-Za-z0-9_.]', '_', fobl['property'] or 'obl')))
                rec = dict(property=pid, group=r['id'], function=g['fn'], tu=TUS[g['tu']]['src'],
                           failed_obligation=fobl['property'], description=fobl['description'],
                           source=dict(file=fobl.get('file'), line=fobl.get('line')),
                           backend=r['solver'], cbmc_inputs=vals,
                           native_replay=rp, native_sweep=sw, failing_input_found=bool(found),
                           all_failed_in_group=[f['property'] for f in r['failed']],
                           how_to_rerun='cd /verif && ./check %s --only %s -v' % (pid, re.escape(r['id'])))
                with open(path, 'w') as f:
                    json.dump(rec, f, indent=1)
                violations.append((path, found, fobl['property'], r['id']))
                break
    except StopIteration:
        pass
    finally:
        if not keep:
            shutil.rmtree(work, ignore_errors=True)

    # ---- evidence
    proof_groups = [r for r in results if r['bounded'] is None]
    bnd_groups = [r for r in results if r['bounded'] is not None]
    n_obl = sum(r['n_user'] for r in proof_groups)
    n_dis = sum(sum(1 for x in r['results'] if x['status'] == 'SUCCESS' and not LIB_PROP_RE.match(x['property'] or '')) for r in proof_groups if r['status'] in ('ok', 'fail'))
    nb_obl = sum(r['n_user'] for r in bnd_groups)
    nb_dis = sum(sum(1 for x in r['results'] if x['status'] == 'SUCCESS' and not LIB_PROP_RE.match(x['property'] or '')) for r in bnd_groups if r['status'] in ('ok', 'fail'))
    samples = []
    for r in results[:400]:
        if r['results']:
            us = [x for x in r['results'] if not LIB_PROP_RE.match(x['property'] or '')]
            if us:
                x = us[min(len(us) - 1, 0)]
                post = [y for y in us if 'postcondition' in y['property']]
                x = post[0] if post else x
                samples.append(dict(group=r['id'], obligation=x['property'], description=x['description'][:160], status=x['status'],
                                    reach_witness=r.get('reach')))
    level = meta.get('level', 'proof')
    if level == 'proof' and (n_obl == 0):
        level = 'other'
    cov = dict(
        obligations=n_obl, discharged=n_dis,
        checker_cmd='goto-cc <harness TU including the real %s sources> ; goto-instrument --dfcc <h> --enforce-contract <f> --replace-call-with-contract <g>... [--apply-loop-contracts] ; cbmc --object-bits 12 [--sat-solver cadical|--cvc5|--z3]  (driver: ./check %s --tier %s)' % (REPO, pid, tier),
        trusted_base=meta.get('trusted_base', []),
        explanation=meta.get('explanation', ''),
        functions_under_contract=sorted({r['fn'] for r in results}),
        groups=[dict(id=r['id'], function=r['fn'], status=r['status'], obligations=r['n_user'], all_cbmc_properties=r['n_all'],
                     backend=r.get('solver'), backend_secs=round(r.get('solver_secs', 0.0), 2), wall_s=round(r['secs'], 2),
                     agreeing_backends=r.get('agree'), bounded=r['bounded'], assumed_contracts=GROUPS[r['id']]['replace'],
                     loop_contracts=GROUPS[r['id']]['loops'], split=GROUPS[r['id']]['split'], reason=r['reason'][:300] if r['reason'] else None)
                for r in results],
        bounded_groups=dict(count=len(bnd_groups), obligations=nb_obl, discharged=nb_dis,
                            note='bounded stand-ins: listed separately, never counted in obligations/discharged'),
        samples=samples[:60],
        solver_seconds=round(sum(r.get('solver_secs', 0.0) for r in results), 1),
        assumptions_scan=scan_assumptions(),
        known_findings=[l for l in kf_lines],
        contracts_assumed_from_other_checks=meta.get('closure_stop', {}),
        contracts_assumed_in_this_tier_enforced_in_thorough_tier=deferred,
        optional_groups_not_decided=optional_undecided,
        group_notes={g['id']: g['note'] for g in groups if g.get('note')},
        exhaustive=False,
    )
    ev = dict(property_id=pid, tier=tier, seed=seed, level=level, coverage=cov,
              assumptions=meta.get('assumptions', []) + ['every __CPROVER_assume in /verif is listed under coverage.assumptions_scan'] +
                          ['quick tier assumes the contract of %s for the cases enforced only by thorough-tier groups %s' % (k, ', '.join(v)) for k, v in sorted(deferred.items())],
              wall_s=round(time.time() - t0, 1), violations=len(violations))
    # a run restricted with --only is a development aid: it must not replace the property's evidence record
    with open(os.path.join(evid_dir, ('%s.only.json' if only else '%s.json') % pid), 'w') as f:
        json.dump(ev, f, indent=1)

    # ---- report
    for l in kf_lines:
        print(l)
    print('%s tier=%s groups=%d obligations=%d discharged=%d bounded_groups=%d wall=%.0fs' %
          (pid, tier, len(results), n_obl, n_dis, len(bnd_groups), time.time() - t0))
    for u in optional_undecided:
        print('NOT-DECIDED (optional group, not counted): ' + u[:300])
    if violations:
        for (path, found, obl, gid) in violations:
            print('VIOLATION property=%s replay=%s obligation=%s group=%s%s' % (pid, path, obl, gid, '' if found else ' no-failing-input-found'))
        return 1
    if undecided:
        for u in undecided:
            print('UNDECIDED property=%s %s' % (pid, u[:2000]))
        return 2
    return 0


def do_replay(path):
    load_registry()
    rec = json.load(open(path))
    g = GROUPS.get(rec['group'])
    print(json.dumps({k: rec[k] for k in ('property', 'group', 'function', 'failed_obligation', 'description', 'cbmc_inputs')}, indent=1))
    if g is None:
        print('group not found')
        return 2
    os.makedirs(os.path.join(ROOT, '.work'), exist_ok=True)
    work = tempfile.mkdtemp(prefix='replay_', dir=os.path.join(ROOT, '.work'))
    try:
        ctx = Ctx(work, 'quick', 0, load_known(), True)
        vals = rec.get('cbmc_inputs') or {}
        rp = replay_native(ctx, g, vals) if vals else None
        print('native replay:', rp)
        if rp and rp['rc'] == 1:
            return 1
        sw = sweep_native(ctx, g, 3000000)
        print('native sweep:', sw)
        return 1 if sw and sw['rc'] == 1 else 0
    finally:
        shutil.rmtree(work, ignore_errors=True)


def main():
    ap = argparse.ArgumentParser()
    ap.add_argument('pid', nargs='?')
    ap.add_argument('--tier', default=os.environ.get('VERIF_TIER', 'quick'))
    ap.add_argument('--replay')
    ap.add_argument('--only')
    ap.add_argument('--list', action='store_true')
    ap.add_argument('--keep', action='store_true')
    ap.add_argument('-v', action='store_true')
    a = ap.parse_args()
    seed = int(os.environ.get('VERIF_SEED', '0') or 0)
    if a.replay:
        sys.exit(do_replay(a.replay))
    load_registry()
    if a.list:
        for i in ORDER:
            g = GROUPS[i]
            print('%-44s %-12s %-28s %s%s' % (i, g['tu'], g['fn'], ','.join(g['props']), ' [bounded]' if g['bounded'] else ''))
        return
    tier = a.tier if a.tier in ('quick', 'thorough') else 'quick'
    sys.exit(check_property(a.pid, tier, seed, verbose=a.v, only=a.only, keep=a.keep))


if __name__ == '__main__':
    main()
