/* vf/prelude.h -- first include of every harness TU (CBMC and native replay) */
#ifndef VERIF_PRELUDE_H
#define VERIF_PRELUDE_H
#include <stdint.h>
#include <stddef.h>
#include <stdbool.h>

#if defined VERIF_NATIVE
/* native replay with gcc: contract clauses vanish, PRE_/POST_ macros stay */
# define __CPROVER_requires(...)
# define __CPROVER_ensures(...)
# define __CPROVER_assigns(...)
# define __CPROVER_frees(...)
# define __CPROVER_loop_invariant(...)
# define __CPROVER_decreases(...)
# define __CPROVER_assume(x) do { if (!(x)) { } } while (0)
# define __CPROVER_assert(x, m) do { } while (0)
# define VERIF_CONTRACT(...)
#else
# define VERIF_CONTRACT(...) __VA_ARGS__
#endif

#endif
