/* contracts/dround.contracts.h -- src/dround.c (C16): rounding to a field value / to a co-class */
#ifndef VERIF_DROUND_CONTRACTS_H
#define VERIF_DROUND_CONTRACTS_H
#include "date-core.public.h"
#include "time-core.contracts.h"

/* time line position of a rounded time including its day carry */
#define TPOS(t) (SSM(t) + 86400 * (int)(t).carry)
#define RDOWN(dur) ((dur).dv < 0 || (dur).neg)
#define RABS(dur) ((int)((dur).dv < 0 ? -(long long)(dur).dv : (long long)(dur).dv))
#define RPER(dur) ((dur).durtyp == DT_DURH ? 86400 : (dur).durtyp == DT_DURM ? 3600 : 60)
/* ---- rounding to a field VALUE (hour, minute or second): the named field equals the target, every finer field keeps
 * its value, the result is the nearest such time on the requested side (strictly different with --next) */
#define PRE_tround_tdur(t, dur, nextp) \
	(V_HMS(t) && (t).typ == DT_HMS && ((dur).durtyp == DT_DURH || (dur).durtyp == DT_DURM || (dur).durtyp == DT_DURS) && \
	 RABS(dur) < ((dur).durtyp == DT_DURH ? 24 : 60) && (dur).dv > -60 && (dur).dv < 60)
#define POST_tround_tdur(ret, t, dur, nextp) \
	(V_HMS(ret) && (ret).hms.ns == (t).hms.ns && (ret).carry >= -1 && (ret).carry <= 1 && \
	 ((dur).durtyp == DT_DURH ? ((int)(ret).hms.h == RABS(dur) && (ret).hms.m == (t).hms.m && (ret).hms.s == (t).hms.s) : \
	  (dur).durtyp == DT_DURM ? ((int)(ret).hms.m == RABS(dur) && (ret).hms.s == (t).hms.s) : (int)(ret).hms.s == RABS(dur)) && \
	 (RDOWN(dur) ? (TPOS(ret) <= SSM(t) && SSM(t) - TPOS(ret) <= RPER(dur) && ((nextp) ? TPOS(ret) < SSM(t) : SSM(t) - TPOS(ret) < RPER(dur))) \
		     : (TPOS(ret) >= SSM(t) && TPOS(ret) - SSM(t) <= RPER(dur) && ((nextp) ? TPOS(ret) > SSM(t) : TPOS(ret) - SSM(t) < RPER(dur)))))
static struct dt_t_s tround_tdur(struct dt_t_s t, struct dt_dtdur_s dur, bool nextp)
CONTRACT(PRE_tround_tdur(t, dur, nextp), POST_tround_tdur(RV, t, dur, nextp));

/* ---- rounding to a CO-CLASS /N (N hours, minutes or seconds dividing the day): nearest multiple on the requested side,
 * finer fields zero; a value already on a multiple is unchanged unless --next */
#define CUNIT(dur) ((dur).durtyp == DT_DURH ? 3600 : (dur).durtyp == DT_DURM ? 60 : 1)
#define CSTEP(dur) (RABS(dur) * CUNIT(dur))
#define PRE_tround_tdur_cocl(t, dur, nextp) \
	(V_HMS(t) && (t).typ == DT_HMS && ((dur).durtyp == DT_DURH || (dur).durtyp == DT_DURM || (dur).durtyp == DT_DURS) && \
	 (dur).dv != 0 && (dur).dv > -86401 && (dur).dv < 86401 && CSTEP(dur) <= 86400 && 86400 % CSTEP(dur) == 0)
#define POST_tround_tdur_cocl(ret, t, dur, nextp) \
	((SSM(t) % CSTEP(dur) == 0 && !(nextp)) ? ((ret).hms.u == (t).hms.u && (ret).carry == 0) : \
	 (V_HMS(ret) && (ret).hms.ns == 0 && TPOS(ret) % CSTEP(dur) == 0 && \
	  (RDOWN(dur) ? (TPOS(ret) < SSM(t) + ((nextp) ? 0 : 1) && SSM(t) - TPOS(ret) <= CSTEP(dur) && (SSM(t) - TPOS(ret) < CSTEP(dur) || (nextp))) \
		      : (TPOS(ret) > SSM(t) - ((nextp) ? 0 : 1) && TPOS(ret) - SSM(t) <= CSTEP(dur) && (TPOS(ret) - SSM(t) < CSTEP(dur) || (nextp))))))
static struct dt_t_s tround_tdur_cocl(struct dt_t_s t, struct dt_dtdur_s dur, bool nextp)
CONTRACT(PRE_tround_tdur_cocl(t, dur, nextp), POST_tround_tdur_cocl(RV, t, dur, nextp));

/* the same rule on epoch values (dround -i %s): the result is the nearest multiple of the step on the requested side, strictly
 * different from the input with --next; multiples are unchanged without --next */
#define PRE_sxround_dur_cocl(t, dur, nextp) \
	(((dur).durtyp == DT_DURH || (dur).durtyp == DT_DURM || (dur).durtyp == DT_DURS) && \
	 (dur).dv != 0 && (dur).dv > -86401 && (dur).dv < 86401 && CSTEP(dur) <= 86400 && 86400 % CSTEP(dur) == 0 && (t) >= 86400 && (t) < (1ULL << 40))
#define POST_sxround_dur_cocl(ret, t, dur, nextp) \
	(((t) % (dt_sexy_t)CSTEP(dur) == 0 && !(nextp)) ? (ret) == (t) : \
	 ((ret) % (dt_sexy_t)CSTEP(dur) == 0 && \
	  (RDOWN(dur) ? ((ret) < (t) + ((nextp) ? 0 : 1) && (t) - (ret) <= (dt_sexy_t)CSTEP(dur) && ((t) - (ret) < (dt_sexy_t)CSTEP(dur) || (nextp))) \
		      : ((ret) + ((nextp) ? 0 : 1) > (t) && (ret) - (t) <= (dt_sexy_t)CSTEP(dur) && ((ret) - (t) < (dt_sexy_t)CSTEP(dur) || (nextp))))))
static dt_sexy_t sxround_dur_cocl(dt_sexy_t t, struct dt_dtdur_s dur, bool nextp)
CONTRACT(PRE_sxround_dur_cocl(t, dur, nextp), POST_sxround_dur_cocl(RV, t, dur, nextp));

/* ---- rounding a ymd date to a MONTH value: month == target, day kept but cropped to the target month's length IN THE RESULT YEAR,
 * year moved to the nearest one on the requested side */
/* the target month is given as a month name (DT_DURYMD, direction in the neg bit) or as a positive value (DT_DURMO, forward) */
#define MO_TGT(dur) ((dur).durtyp == DT_DURYMD ? (int)(dur).ymd.m : (int)(dur).dv)
#define MO_DOWN(dur) ((dur).durtyp == DT_DURYMD ? (int)(dur).neg : 0)
#define PRE_dround_ddur_mo(d, dur, nextp) \
	((d).typ == DT_YMD && V_YMD((d).ymd) && (d).ymd.y >= 1602 && (d).ymd.y <= 4094 && \
	 (((dur).durtyp == DT_DURMO && (dur).dv >= 1 && (dur).dv <= 12) || ((dur).durtyp == DT_DURYMD && (dur).ymd.m >= 1 && (dur).ymd.m <= 12)))
#define MO_Y(d, dur, nextp) \
	((int)(d).ymd.y + (MO_DOWN(dur) ? (((int)(d).ymd.m > MO_TGT(dur) || ((int)(d).ymd.m == MO_TGT(dur) && !(nextp))) ? 0 : -1) \
				       : (((int)(d).ymd.m < MO_TGT(dur) || ((int)(d).ymd.m == MO_TGT(dur) && !(nextp))) ? 0 : 1)))
#define POST_dround_ddur_mo(ret, d, dur, nextp) \
	((ret).typ == DT_YMD && (int)(ret).ymd.m == MO_TGT(dur) && (int)(ret).ymd.y == MO_Y(d, dur, nextp) && \
	 (int)(ret).ymd.d == ((int)(d).ymd.d > S_MDAYS(MO_Y(d, dur, nextp), MO_TGT(dur)) ? S_MDAYS(MO_Y(d, dur, nextp), MO_TGT(dur)) : (int)(d).ymd.d))
/* ---- rounding a ymd date to a DAY-OF-MONTH value */
#define PRE_dround_ddur_d(d, dur, nextp) \
	((d).typ == DT_YMD && V_YMD((d).ymd) && (d).ymd.y >= 1602 && (d).ymd.y <= 4094 && (dur).durtyp == DT_DURD && RABS(dur) >= 1 && RABS(dur) <= 31 && (dur).dv > -32 && (dur).dv < 32)
#define D_STEP(d, dur, nextp) \
	((dur).dv < 0 ? (((int)(d).ymd.d > RABS(dur) || ((int)(d).ymd.d == RABS(dur) && !(nextp))) ? 0 : -1) \
		      : (((int)(d).ymd.d < RABS(dur) || ((int)(d).ymd.d == RABS(dur) && !(nextp))) ? 0 : 1))
#define D_MIDX(d, dur, nextp) (MIDX((d).ymd.y, (d).ymd.m) + D_STEP(d, dur, nextp))
#define POST_dround_ddur_d(ret, d, dur, nextp) \
	((ret).typ == DT_YMD && MIDX((ret).ymd.y, (ret).ymd.m) == D_MIDX(d, dur, nextp) && (ret).ymd.m >= 1 && (ret).ymd.m <= 12 && \
	 (int)(ret).ymd.d == (RABS(dur) > S_MDAYS(D_MIDX(d, dur, nextp) / 12, D_MIDX(d, dur, nextp) % 12 + 1) ? S_MDAYS(D_MIDX(d, dur, nextp) / 12, D_MIDX(d, dur, nextp) % 12 + 1) : RABS(dur)))
/* ---- rounding a day-number value to a WEEKDAY: result has that weekday, lies on the requested side, at most 6 days away
 * (exactly 7 with --next when already on it; unchanged without --next when already on it) */
#define PRE_dround_ddur_wd(d, dur, nextp) \
	((d).typ == DT_DAISY && (d).daisy >= 8 && (d).daisy <= S_MAX_DAISY - 7 && (dur).durtyp == DT_DURYMCW && (dur).ymcw.w >= 1 && (dur).ymcw.w <= 7)
#define WD_DELTA(ret, d) ((int)(ret).daisy - (int)(d).daisy)
#define POST_dround_ddur_wd(ret, d, dur, nextp) \
	((ret).typ == DT_DAISY && S_WDAY((int)(ret).daisy) == (int)(dur).ymcw.w && \
	 ((dur).neg ? (WD_DELTA(ret, d) <= 0 && WD_DELTA(ret, d) >= -7 && ((nextp) ? WD_DELTA(ret, d) < 0 : WD_DELTA(ret, d) > -7)) \
		    : (WD_DELTA(ret, d) >= 0 && WD_DELTA(ret, d) <= 7 && ((nextp) ? WD_DELTA(ret, d) > 0 : WD_DELTA(ret, d) < 7))))
#define PRE_dround_ddur(d, dur, nextp) (PRE_dround_ddur_mo(d, dur, nextp) || PRE_dround_ddur_d(d, dur, nextp) || PRE_dround_ddur_wd(d, dur, nextp))
#define POST_dround_ddur(ret, d, dur, nextp) ((dur).durtyp == DT_DURD ? POST_dround_ddur_d(ret, d, dur, nextp) : \
	(dur).durtyp == DT_DURYMCW ? POST_dround_ddur_wd(ret, d, dur, nextp) : POST_dround_ddur_mo(ret, d, dur, nextp))
static struct dt_d_s dround_ddur(struct dt_d_s d, struct dt_ddur_s dur, bool nextp)
CONTRACT(PRE_dround_ddur(d, dur, nextp), POST_dround_ddur(RV, d, dur, nextp));
#endif
