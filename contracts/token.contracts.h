/* contracts/token.contracts.h -- lib/token.c: the specifier tokenizer shared by all parsers and printers (C10, C09) */
#ifndef VERIF_TOKEN_CONTRACTS_H
#define VERIF_TOKEN_CONTRACTS_H
#define TOK_N 8   /* format strings of up to 7 bytes + NUL: every specifier form (modifiers, %s%N, ordinal th, bizda suffix) fits */
static inline size_t S_strlen8(const char *s)
{
	size_t n = 0;
	for (size_t i = 0; i < TOK_N; i++) { if (n == i && s[i] != '\0') n = i + 1; }
	return n;
}
/* the end pointer makes progress and never passes the terminating NUL, whatever the format bytes are
 * (a format that ends inside a specifier, e.g. "%", "%_", "%O", included) */
struct dt_spec_s __tok_spec(const char *fp, const char **ep)
VERIF_CONTRACT(__CPROVER_requires(__CPROVER_is_fresh(fp, TOK_N) && fp[TOK_N - 1] == '\0' && fp[0] != '\0' && __CPROVER_is_fresh(ep, sizeof(*ep)))
	__CPROVER_ensures(__CPROVER_same_object(*ep, fp) && *ep > fp && *ep <= fp + S_strlen8(fp))
	__CPROVER_ensures(fp[0] == '%' || (__CPROVER_return_value.spfl == DT_SPFL_UNK && *ep == fp + 1))
	__CPROVER_assigns(*ep));
#endif
