/* contracts/date-core.more.h -- C04 (month/year arithmetic), C05 (differences), C07 (business days), C08 (comparison)
 * on private functions of /repo/lib/date-core.c */
#ifndef VERIF_DATE_CORE_MORE_H
#define VERIF_DATE_CORE_MORE_H

/* ---------------------------------------------------------------- C08: comparison == chronological order */
/* ---------------------------------------------------------------- C04: month / year arithmetic (lazy ultimo) */
/* (y, m) + n months: 12*y + (m-1) is moved by exactly n; the day field is untouched */
#define PRE___ymd_add_m(d, n) (L_YMD(d) && (n) >= -30000 && (n) <= 30000 && MIDX((d).y, (d).m) + (n) >= MIDX(1601, 1) && MIDX((d).y, (d).m) + (n) <= MIDX(4095, 12))
#define POST___ymd_add_m(ret, d, n) (L_YMD(ret) && (ret).d == (d).d && MIDX((ret).y, (ret).m) == MIDX((d).y, (d).m) + (n))
static dt_ymd_t __ymd_add_m(dt_ymd_t d, int n)
CONTRACT(PRE___ymd_add_m(d, n), POST___ymd_add_m(RV, d, n));
#define PRE___ymd_add_y(d, n) (L_YMD(d) && (n) >= -3000 && (n) <= 3000 && V_YEAR((int)(d).y + (n)))
#define POST___ymd_add_y(ret, d, n) ((ret).d == (d).d && (ret).m == (d).m && (int)(ret).y == (int)(d).y + (n) && ((ret).u >> 22) == 0)
static dt_ymd_t __ymd_add_y(dt_ymd_t d, int n)
CONTRACT(PRE___ymd_add_y(d, n), POST___ymd_add_y(RV, d, n));
#define PRE___ymcw_add_m(d, n) (L_YMCW(d) && (n) >= -30000 && (n) <= 30000 && MIDX((d).y, (d).m) + (n) >= MIDX(1601, 1) && MIDX((d).y, (d).m) + (n) <= MIDX(4095, 12))
#define POST___ymcw_add_m(ret, d, n) (L_YMCW(ret) && (ret).c == (d).c && (ret).w == (d).w && MIDX((ret).y, (ret).m) == MIDX((d).y, (d).m) + (n))
static dt_ymcw_t __ymcw_add_m(dt_ymcw_t d, int n)
CONTRACT(PRE___ymcw_add_m(d, n), POST___ymcw_add_m(RV, d, n));
#define PRE___ymcw_add_y(d, n) (L_YMCW(d) && (n) >= -3000 && (n) <= 3000 && V_YEAR((int)(d).y + (n)))
#define POST___ymcw_add_y(ret, d, n) (ADDY_YMCW(ret, d, n))
static dt_ymcw_t __ymcw_add_y(dt_ymcw_t d, int n)
CONTRACT(PRE___ymcw_add_y(d, n), POST___ymcw_add_y(RV, d, n));
#define PRE___yd_add_y(d, n) (L_YD(d) && (n) >= -3000 && (n) <= 3000 && V_YEAR((int)(d).y + (n)))
#define POST___yd_add_y(ret, d, n) (ADDY_YD(ret, d, n))
static dt_yd_t __yd_add_y(dt_yd_t d, int n)
CONTRACT(PRE___yd_add_y(d, n), POST___yd_add_y(RV, d, n));
/* crop of the count to the last existing one */
#define PRE___ymcw_fixup(d) (L_YMCW(d))
#define POST___ymcw_fixup(ret, d) ((ret).y == (d).y && (ret).m == (d).m && (ret).w == (d).w && \
	(int)(ret).c == ((int)(d).c > S_mcnt((int)(d).y, (int)(d).m, (int)(d).w) ? S_mcnt((int)(d).y, (int)(d).m, (int)(d).w) : (int)(d).c) && V_YMCW(ret))
dt_ymcw_t __ymcw_fixup(dt_ymcw_t d)
CONTRACT(PRE___ymcw_fixup(d), POST___ymcw_fixup(RV, d));
/* ISO week dates: +n years keeps week and weekday, hang recomputed; crop of week 53 to the last existing week */
#define PRE___ywd_add_y(d, n) (V_YEAR((int)(d).y) && (d).c >= 1 && (d).c <= 53 && (d).w >= 1 && (d).w <= 7 && (n) >= -3000 && (n) <= 3000 && V_YEAR((int)(d).y + (n)))
#define POST___ywd_add_y(ret, d, n) ((int)(ret).y == (int)(d).y + (n) && (ret).c == (d).c && (ret).w == (d).w && (int)(ret).hang == S_HANG((int)(d).y + (n)))
static dt_ywd_t __ywd_add_y(dt_ywd_t d, int n)
CONTRACT(PRE___ywd_add_y(d, n), POST___ywd_add_y(RV, d, n));
#define PRE___ywd_fixup(d) (V_YEAR((int)(d).y) && (d).c >= 1 && (d).c <= 53)
#define POST___ywd_fixup(ret, d) ((ret).y == (d).y && (ret).w == (d).w && (ret).hang == (d).hang && ((ret).u >> 25) == ((d).u >> 25) && (int)(ret).c == ((int)(d).c > S_ISOWEEKS((int)(d).y) ? S_ISOWEEKS((int)(d).y) : (int)(d).c))
dt_ywd_t __ywd_fixup(dt_ywd_t d)
CONTRACT(PRE___ywd_fixup(d), POST___ywd_fixup(RV, d));

#define PRE___yd_fixup(d) (L_YD(d))
#define POST___yd_fixup(ret, d) ((ret).y == (d).y && (int)(ret).d == IMIN((int)(d).d, S_YDAYS((int)(d).y)))
dt_yd_t __yd_fixup(dt_yd_t d)
CONTRACT(PRE___yd_fixup(d), POST___yd_fixup(RV, d));

/* ---------------------------------------------------------------- C07: business days */
/* number of Mon-Fri days among day numbers 1..x (day 1 is a Monday): 5 per whole week + min(rest, 5) */
#define W5(x) (5 * ((x) / 7) + (((x) % 7) < 5 ? ((x) % 7) : 5))
/* adding b != 0 business days from a day whose weekday is dow: result r days later is a business day and
 * exactly |b| business days lie in (x, x+r] (b > 0) resp. [x+r, x) (b < 0); x = any day with weekday dow: take x = dow + 700000 */
#define DEQ_X(dow) ((int)(dow) + 700000 - 7)   /* 700000 - 7 is a multiple of 7: weekday(DEQ_X(dow)) == dow */
#define PRE___get_d_equiv(dow, b) ((dow) >= 1 && (dow) <= 7 && (b) != 0 && (b) >= -200000 && (b) <= 200000)
#define POST___get_d_equiv(ret, dow, b) \
	(S_WDAY(DEQ_X(dow) + (ret)) <= 5 && \
	 ((b) > 0 ? ((ret) > 0 && W5(DEQ_X(dow) + (ret)) - W5(DEQ_X(dow)) == (b)) \
		  : ((ret) < 0 && W5(DEQ_X(dow) - 1) - W5(DEQ_X(dow) + (ret) - 1) == -(b))))
static int __get_d_equiv(dt_dow_t dow, int b)
CONTRACT(PRE___get_d_equiv(dow, b), POST___get_d_equiv(RV, dow, b));
/* number of business days in a run of DUR consecutive days that ENDS on a day with weekday WD (dur < 0: the run of -dur days
 * that starts the day after, counted negatively): equals the W5 difference over that run */
#define NB_X(wd) ((int)(wd) + 1400000 - 7)
#define PRE___get_nbdays(dur, wd) ((wd) >= 1 && (wd) <= 7 && (dur) >= -1000000 && (dur) <= 1000000)
#define POST___get_nbdays(ret, dur, wd) ((ret) == ((dur) >= 0 ? W5(NB_X(wd)) - W5(NB_X(wd) - (dur)) : -(W5(NB_X(wd) - (dur)) - W5(NB_X(wd)))))
static int __get_nbdays(int dur, dt_dow_t wd)
CONTRACT(PRE___get_nbdays(dur, wd), POST___get_nbdays(RV, dur, wd));
/* business days in a month, n-th business day of a month */
#define S_BDAYS(y, m) (W5(S_DAISY(y, m, 1) - 1 + S_MDAYS(y, m)) - W5(S_DAISY(y, m, 1) - 1))
#define PRE___get_bdays(y, m) (V_YEAR((int)(y)) && (m) >= 1 && (m) <= 12)
#define POST___get_bdays(ret, y, m) ((int)(ret) == S_BDAYS((int)(y), (int)(m)))
unsigned int __get_bdays(unsigned int y, unsigned int m)
CONTRACT(PRE___get_bdays(y, m), POST___get_bdays(RV, y, m));
/* YYYY-MM-DDb -> day of month of the DD-th Mon-Fri day of the month (0 if the month has fewer) */
#define PRE___bizda_get_mday(t) (V_YEAR((int)(t).y) && (t).m >= 1 && (t).m <= 12 && (t).bd >= 1 && (t).bd <= 23)
#define POST___bizda_get_mday(ret, t) \
	((int)(t).bd > S_BDAYS((int)(t).y, (int)(t).m) ? (ret) == 0 : \
	 ((ret) >= 1 && (int)(ret) <= S_MDAYS((int)(t).y, (int)(t).m) && S_WDAY(S_DAISY((int)(t).y, (int)(t).m, (int)(ret))) <= 5 && \
	  W5(S_DAISY((int)(t).y, (int)(t).m, (int)(ret))) - W5(S_DAISY((int)(t).y, (int)(t).m, 1) - 1) == (int)(t).bd))
static unsigned int __bizda_get_mday(dt_bizda_t that)
CONTRACT(PRE___bizda_get_mday(that), POST___bizda_get_mday(RV, that));
/* the N-th business day of the year: business days in the months before + bd */
#define PRE___bizda_get_yday(t, p) (V_YEAR((int)(t).y) && (t).m >= 1 && (t).m <= 12 && (t).bd >= 1 && (t).bd <= 23 && (p).ref == BIZDA_ULTIMO)
#define POST___bizda_get_yday(ret, t, p) ((int)(ret) == W5(S_DAISY((int)(t).y, (int)(t).m, 1) - 1) - W5(S_JAN00((int)(t).y)) + (int)(t).bd)
static unsigned int __bizda_get_yday(dt_bizda_t that, dt_bizda_param_t param)
CONTRACT(PRE___bizda_get_yday(that, param), POST___bizda_get_yday(RV, that, param));

/* ---------------------------------------------------------------- C05: differences */
/* ymd difference (Y, M, D), sign = which is earlier: applied to the earlier date largest unit first lands on the later one
 * (stated for an earlier day-of-month <= 28, as in the property) */
#define YMD_LT(a, b) ((a).u < (b).u)
#define E_OF(d1, d2) (YMD_LT(d2, d1) ? (d2) : (d1))
#define L_OF(d1, d2) (YMD_LT(d2, d1) ? (d1) : (d2))
#define PRE___ymd_diff(d1, d2) (V_YMD(d1) && V_YMD(d2) && E_OF(d1, d2).d <= 28)
#define POST___ymd_diff(ret, d1, d2) \
	((ret).durtyp == DT_DURYMD && (ret).neg == (YMD_LT(d2, d1) ? 1 : 0) && (ret).ymd.m < 12 && \
	 /* months first */ \
	 MIDX(E_OF(d1, d2).y, E_OF(d1, d2).m) + 12 * (int)(ret).ymd.y + (int)(ret).ymd.m <= MIDX(L_OF(d1, d2).y, L_OF(d1, d2).m) && \
	 /* then days: day number of (earlier + months) + D == day number of later */ \
	 S_JAN00((MIDX(E_OF(d1, d2).y, E_OF(d1, d2).m) + 12 * (int)(ret).ymd.y + (int)(ret).ymd.m) / 12) + \
	 S_CUML((MIDX(E_OF(d1, d2).y, E_OF(d1, d2).m) + 12 * (int)(ret).ymd.y + (int)(ret).ymd.m) / 12, (MIDX(E_OF(d1, d2).y, E_OF(d1, d2).m) + 12 * (int)(ret).ymd.y + (int)(ret).ymd.m) % 12 + 1) + \
	 (int)E_OF(d1, d2).d + (int)(ret).ymd.d == A_YMD(L_OF(d1, d2)))
static struct dt_ddur_s __ymd_diff(dt_ymd_t d1, dt_ymd_t d2)
CONTRACT(PRE___ymd_diff(d1, d2), POST___ymd_diff(RV, d1, d2));
/* year/day difference: (earlier + Y years) + D days == later, where + Y years keeps month and day of month
 * (Feb 29 of the earlier date counts as Mar 1 in a common target year) */
#define YD_LT(a, b) ((a).u < (b).u)
#define YE_OF(d1, d2) (YD_LT(d2, d1) ? (d2) : (d1))
#define YL_OF(d1, d2) (YD_LT(d2, d1) ? (d1) : (d2))
static inline int S_yd_plus_years(int y, int yd, int n)
{	/* day number of "(y, yd) + n years" keeping month/day-of-month */
	int m = S_mon_of_yday(y, yd), dd = S_mday_of_yday(y, yd);
	return S_JAN00(y + n) + S_CUML(y + n, m) + dd;
}
#define PRE___yd_diff(d1, d2) (V_YD(d1) && V_YD(d2))
#define POST___yd_diff(ret, d1, d2) \
	((ret).durtyp == DT_DURYD && (ret).neg == (YD_LT(d2, d1) ? 1 : 0) && (int)(ret).yd.d >= 0 && (int)(ret).yd.d <= 366 && \
	 S_yd_plus_years((int)YE_OF(d1, d2).y, (int)YE_OF(d1, d2).d, (int)(ret).yd.y) + (int)(ret).yd.d == A_YD(YL_OF(d1, d2)))
static struct dt_ddur_s __yd_diff(dt_yd_t d1, dt_yd_t d2)
CONTRACT(PRE___yd_diff(d1, d2), POST___yd_diff(RV, d1, d2));
#endif
