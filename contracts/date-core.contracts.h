/* contracts/date-core.contracts.h -- function contracts on the REAL functions of
 * /repo/lib/date-core.c (which textually includes yd.c ymd.c ymcw.c ywd.c bizda.c
 * daisy.c ummulqura.c date-core-strpf.c).  Included AFTER the real TU: CBMC attaches a
 * contract written on a redeclaration to the definition.
 * Every contract is PRE_<f>/POST_<f> macros (also evaluated natively in replays). */
#ifndef VERIF_DATE_CORE_CONTRACTS_H
#define VERIF_DATE_CORE_CONTRACTS_H

#define RV __CPROVER_return_value
#define CONTRACT(pre, post) VERIF_CONTRACT(__CPROVER_requires(pre) __CPROVER_ensures(post) __CPROVER_assigns())

/* ------------------------------------------------------------ leaves: yd.c / ymd.c / daisy.c */
#define PRE___leapp(y) (1)
#define POST___leapp(ret, y) ((ret) == (bool)S_LEAP(y))
static inline bool __leapp(unsigned int y)
CONTRACT(PRE___leapp(y), POST___leapp(RV, y));

/* cumulative month table: mon 1..13 (13 = one past december, used by __get_mdays) */
#define PRE___md_get_yday(year, mon, dom) ((mon) >= 1 && (mon) <= 13 && (dom) <= 0xffffu)
#define POST___md_get_yday(ret, year, mon, dom) \
	((ret) == (unsigned)S_CUM[mon] + (dom) + (((mon) >= 3 && S_LEAP(year)) ? 1u : 0u))
static inline unsigned int __md_get_yday(unsigned int year, unsigned int mon, unsigned int dom)
CONTRACT(PRE___md_get_yday(year, mon, dom), POST___md_get_yday(RV, year, mon, dom));

#define PRE___get_mdays(y, m) (1)
#define POST___get_mdays(ret, y, m) \
	(((m) >= 1 && (m) <= 12) ? (ret) == (unsigned)S_MDAYS(y, m) : (ret) == 0)
unsigned int __get_mdays(unsigned int y, unsigned int m)
CONTRACT(PRE___get_mdays(y, m), POST___get_mdays(RV, y, m));

#define PRE___get_ydays(y) (1)
#define POST___get_ydays(ret, y) ((ret) == (unsigned)S_YDAYS(y))
static inline unsigned int __get_ydays(unsigned int y)
CONTRACT(PRE___get_ydays(y), POST___get_ydays(RV, y));

/* inverse of the cumulative table: for 1 <= doy <= days in year */
#define PRE___yday_get_md(year, doy) ((doy) >= 1 && (doy) <= (unsigned)S_YDAYS(year))
#define POST___yday_get_md(ret, year, doy) \
	((ret).m >= 1 && (ret).m <= 12 && (ret).d >= 1 && (ret).d <= (unsigned)S_MDAYS(year, (ret).m) && \
	 (unsigned)S_YDAY(year, (ret).m, (ret).d) == (doy))
static struct __md_s __yday_get_md(unsigned int year, unsigned int doy)
CONTRACT(PRE___yday_get_md(year, doy), POST___yday_get_md(RV, year, doy));

/* 28-year table + 400-year equivalence classes: weekday of Jan 1st */
#define PRE___get_jan01_wday(year) ((year) >= 1601 && (year) <= 4096)
#define POST___get_jan01_wday(ret, year) ((int)(ret) == S_WDAY(S_JAN00((int)(year)) + 1))
static inline dt_dow_t __get_jan01_wday(unsigned int year)
CONTRACT(PRE___get_jan01_wday(year), POST___get_jan01_wday(RV, year));

#define PRE___get_m01_wday(year, mon) ((year) >= 1601 && (year) <= 4096)
#define POST___get_m01_wday(ret, year, mon) \
	(((mon) >= 1 && (mon) <= 12) ? (int)(ret) == S_WDAY(S_DAISY((int)(year), (int)(mon), 1)) : (ret) == DT_MIRACLEDAY)
static dt_dow_t __get_m01_wday(unsigned int year, unsigned int mon)
CONTRACT(PRE___get_m01_wday(year, mon), POST___get_m01_wday(RV, year, mon));

#define PRE___get_dom_wday(year, mon, dom) ((year) >= 1601 && (year) <= 4096 && (mon) >= 1 && (mon) <= 12 && (dom) >= 1 && (dom) <= 63)
#define POST___get_dom_wday(ret, year, mon, dom) ((int)(ret) == S_WDAY(S_DAISY((int)(year), (int)(mon), (int)(dom))))
static dt_dow_t __get_dom_wday(unsigned int year, unsigned int mon, unsigned int dom)
CONTRACT(PRE___get_dom_wday(year, mon, dom), POST___get_dom_wday(RV, year, mon, dom));

/* weekday of jan01 deduced from (yday, weekday) */
#define PRE___get_jan01_yday_dow(yd, w) ((yd) >= 1 && (yd) <= 400 && (w) >= 1 && (w) <= 7)
#define POST___get_jan01_yday_dow(ret, yd, w) \
	((ret) >= 1 && (ret) <= 7 && ((int)(ret) - 1 + (int)(yd) - 1) % 7 == (int)(w) - 1)
static inline dt_dow_t __get_jan01_yday_dow(unsigned int yd, dt_dow_t w)
CONTRACT(PRE___get_jan01_yday_dow(yd, w), POST___get_jan01_yday_dow(RV, yd, w));

#define PRE___jan00_daisy(year) ((year) >= 1601 && (year) <= 4096)
#define POST___jan00_daisy(ret, year) ((ret) == (dt_daisy_t)S_JAN00((int)(year)))
static inline dt_daisy_t __jan00_daisy(unsigned int year)
CONTRACT(PRE___jan00_daisy(year), POST___jan00_daisy(RV, year));

#define PRE___daisy_get_wday(d) ((d) <= 0x7ffffff0u)
#define POST___daisy_get_wday(ret, d) ((int)(ret) == S_WDAY((int)(d)))
static dt_dow_t __daisy_get_wday(dt_daisy_t d)
CONTRACT(PRE___daisy_get_wday(d), POST___daisy_get_wday(RV, d));

#define PRE___daisy_get_year(d) ((d) >= 1 && (d) <= S_MAX_DAISY)
#define POST___daisy_get_year(ret, d) \
	(V_YEAR((int)(ret)) && S_JAN00((int)(ret)) < (int)(d) && (int)(d) <= S_JAN00((int)(ret) + 1))
static unsigned int __daisy_get_year(dt_daisy_t d)
CONTRACT(PRE___daisy_get_year(d), POST___daisy_get_year(RV, d));

#define PRE___daisy_get_yday(d) ((d) >= 1 && (d) <= S_MAX_DAISY)
#define POST___daisy_get_yday(ret, d) \
	((ret) >= 1 && (ret) <= 366 && S_daisy_year((int)(d)) >= 0 && (int)(ret) == (int)(d) - S_JAN00(S_daisy_year((int)(d))))
static unsigned int __daisy_get_yday(dt_daisy_t d)
CONTRACT(PRE___daisy_get_yday(d), POST___daisy_get_yday(RV, d));

/* Neri-Schneider both ways */
#define PRE___ymd_to_daisy(d) (V_YEAR((d).y) && (d).m >= 1 && (d).m <= 12 && (d).d >= 1 && (d).d <= 31)
#define POST___ymd_to_daisy(ret, d) ((ret) == (dt_daisy_t)S_DAISY((int)(d).y, (int)(d).m, (int)(d).d))
static dt_daisy_t __ymd_to_daisy(dt_ymd_t d)
CONTRACT(PRE___ymd_to_daisy(d), POST___ymd_to_daisy(RV, d));

#define PRE___daisy_to_ymd(n) ((n) >= 1 && (n) <= S_MAX_DAISY)
#define POST___daisy_to_ymd(ret, n) (R_ymd_of((int)(n), (ret).y, (ret).m, (ret).d) && ((ret).u >> 22) == 0)
dt_ymd_t __daisy_to_ymd(dt_daisy_t that)
CONTRACT(PRE___daisy_to_ymd(that), POST___daisy_to_ymd(RV, that));

#endif
