/* contracts/date-core.contracts.h -- function contracts on the REAL functions of
 * /repo/lib/date-core.c (which textually includes yd.c ymd.c ymcw.c ywd.c bizda.c
 * daisy.c ummulqura.c date-core-strpf.c).  Included AFTER the real TU: CBMC attaches a
 * contract written on a redeclaration to the definition.
 * Every contract is PRE_<f>/POST_<f> macros (also evaluated natively in replays). */
#ifndef VERIF_DATE_CORE_CONTRACTS_H
#define VERIF_DATE_CORE_CONTRACTS_H

#define RV __CPROVER_return_value
#define CONTRACT(pre, post) VERIF_CONTRACT(__CPROVER_requires(pre) __CPROVER_ensures(post) __CPROVER_assigns())

/* ------------------------------------------------------------ leaves: yd.c / ymd.c / daisy.c */
#define PRE___leapp(y) (1)
#define POST___leapp(ret, y) ((ret) == (bool)S_LEAP(y))
static inline bool __leapp(unsigned int y)
CONTRACT(PRE___leapp(y), POST___leapp(RV, y));

/* cumulative month table: mon 1..13 (13 = one past december, used by __get_mdays) */
#define PRE___md_get_yday(year, mon, dom) ((mon) >= 1 && (mon) <= 13 && (dom) <= 0xffffu)
#define POST___md_get_yday(ret, year, mon, dom) \
	((ret) == (unsigned)S_CUM[mon] + (dom) + (((mon) >= 3 && S_LEAP(year)) ? 1u : 0u))
static inline unsigned int __md_get_yday(unsigned int year, unsigned int mon, unsigned int dom)
CONTRACT(PRE___md_get_yday(year, mon, dom), POST___md_get_yday(RV, year, mon, dom));

#define PRE___get_ydays(y) (1)
#define POST___get_ydays(ret, y) ((ret) == (unsigned)S_YDAYS(y))
static inline unsigned int __get_ydays(unsigned int y)
CONTRACT(PRE___get_ydays(y), POST___get_ydays(RV, y));

/* inverse of the cumulative table: for 1 <= doy <= days in year */
#define PRE___yday_get_md(year, doy) ((doy) >= 1 && (doy) <= (unsigned)S_YDAYS(year))
#define POST___yday_get_md(ret, year, doy) \
	((ret).m >= 1 && (ret).m <= 12 && (ret).d >= 1 && (ret).d <= (unsigned)S_MDAYS(year, (ret).m) && \
	 (unsigned)S_YDAY(year, (ret).m, (ret).d) == (doy))
static struct __md_s __yday_get_md(unsigned int year, unsigned int doy)
CONTRACT(PRE___yday_get_md(year, doy), POST___yday_get_md(RV, year, doy));

/* 28-year table + 400-year equivalence classes: weekday of Jan 1st */
#define PRE___get_jan01_wday(year) ((year) >= 1601 && (year) <= 4096)
#define POST___get_jan01_wday(ret, year) ((int)(ret) == S_J01WD((int)(year)))
static inline dt_dow_t __get_jan01_wday(unsigned int year)
CONTRACT(PRE___get_jan01_wday(year), POST___get_jan01_wday(RV, year));

#define PRE___get_m01_wday(year, mon) ((year) >= 1601 && (year) <= 4096)
#define POST___get_m01_wday(ret, year, mon) \
	(((mon) >= 1 && (mon) <= 12) ? (int)(ret) == S_M01WD((int)(year), (int)(mon)) : (ret) == DT_MIRACLEDAY)
static dt_dow_t __get_m01_wday(unsigned int year, unsigned int mon)
CONTRACT(PRE___get_m01_wday(year, mon), POST___get_m01_wday(RV, year, mon));

#define PRE___get_dom_wday(year, mon, dom) ((year) >= 1601 && (year) <= 4096 && (mon) >= 1 && (mon) <= 12 && (dom) >= 1 && (dom) <= 63)
#define POST___get_dom_wday(ret, year, mon, dom) ((int)(ret) == S_WDAY_YMD((int)(year), (int)(mon), (int)(dom)))
static dt_dow_t __get_dom_wday(unsigned int year, unsigned int mon, unsigned int dom)
CONTRACT(PRE___get_dom_wday(year, mon, dom), POST___get_dom_wday(RV, year, mon, dom));

/* weekday of jan01 deduced from (yday, weekday) */
#define PRE___get_jan01_yday_dow(yd, w) ((yd) >= 1 && (yd) <= 400 && (w) >= 1 && (w) <= 7)
#define POST___get_jan01_yday_dow(ret, yd, w) \
	((ret) >= 1 && (ret) <= 7 && ((int)(ret) - 1 + (int)(yd) - 1) % 7 == (int)(w) - 1)
static inline dt_dow_t __get_jan01_yday_dow(unsigned int yd, dt_dow_t w)
CONTRACT(PRE___get_jan01_yday_dow(yd, w), POST___get_jan01_yday_dow(RV, yd, w));

#define PRE___jan00_daisy(year) ((year) >= 1601 && (year) <= 4200)
#define POST___jan00_daisy(ret, year) ((ret) == (dt_daisy_t)S_JAN00((int)(year)))
static inline dt_daisy_t __jan00_daisy(unsigned int year)
CONTRACT(PRE___jan00_daisy(year), POST___jan00_daisy(RV, year));

#define PRE___daisy_get_wday(d) ((d) <= 0x7ffffff0u)
#define POST___daisy_get_wday(ret, d) ((int)(ret) == S_WDAY((int)(d)))
static dt_dow_t __daisy_get_wday(dt_daisy_t d)
CONTRACT(PRE___daisy_get_wday(d), POST___daisy_get_wday(RV, d));

#define PRE___daisy_get_year(d) ((d) >= 1 && (d) <= S_MAX_DAISY)
#define POST___daisy_get_year(ret, d) \
	(V_YEAR((int)(ret)) && S_JAN00((int)(ret)) < (int)(d) && (int)(d) <= S_JAN00((int)(ret) + 1))
static unsigned int __daisy_get_year(dt_daisy_t d)
CONTRACT(PRE___daisy_get_year(d), POST___daisy_get_year(RV, d));

/* Neri-Schneider both ways */
#define PRE___ymd_to_daisy(d) (V_YEAR((d).y) && (d).m >= 1 && (d).m <= 12 && (d).d >= 1 && (d).d <= 31)
#define POST___ymd_to_daisy(ret, d) ((ret) == (dt_daisy_t)S_DAISY((int)(d).y, (int)(d).m, (int)(d).d))
static dt_daisy_t __ymd_to_daisy(dt_ymd_t d)
CONTRACT(PRE___ymd_to_daisy(d), POST___ymd_to_daisy(RV, d));

#define PRE___daisy_to_ymd(n) ((n) >= 1 && (n) <= S_MAX_DAISY)
#define POST___daisy_to_ymd(ret, n) (R_ymd_of((int)(n), (ret).y, (ret).m, (ret).d) && ((ret).u >> 22) == 0)
dt_ymd_t __daisy_to_ymd(dt_daisy_t that)
CONTRACT(PRE___daisy_to_ymd(that), POST___daisy_to_ymd(RV, that));


/* ============================================================ C01: getters and converters */
#include "../spec/abs.h"

/* ---- ymd.c getters */
#define PRE___ymd_get_yday(t) (((t).y == 0 || (t).m == 0 || (t).m > 12) || 1)
#define POST___ymd_get_yday(ret, t) \
	(((t).y == 0 || (t).m == 0 || (t).m > 12) ? (ret) == 0 : (ret) == (unsigned)S_YDAY((int)(t).y, (int)(t).m, (int)(t).d))
static unsigned int __ymd_get_yday(dt_ymd_t that)
CONTRACT(PRE___ymd_get_yday(that), POST___ymd_get_yday(RV, that));

#define PRE___ymd_get_wday(t) (L_YMD(t))
#define POST___ymd_get_wday(ret, t) ((int)(ret) == S_WDAY_YMD((int)(t).y, (int)(t).m, (int)(t).d))
static dt_dow_t __ymd_get_wday(dt_ymd_t that)
CONTRACT(PRE___ymd_get_wday(that), POST___ymd_get_wday(RV, that));

#define PRE___ymd_get_count(t) ((t).d >= 1)
#define POST___ymd_get_count(ret, t) ((ret) == ((t).d - 1u) / 7u + 1u)
unsigned int __ymd_get_count(dt_ymd_t that)
CONTRACT(PRE___ymd_get_count(that), POST___ymd_get_count(RV, that));

#define PRE___ymd_to_ymcw(d) (V_YMD(d))
#define POST___ymd_to_ymcw(ret, d) (V_YMCW(ret) && (ret).y == (d).y && (ret).m == (d).m && SAME(YMCW, ret, YMD, d))
static dt_ymcw_t __ymd_to_ymcw(dt_ymd_t d)
CONTRACT(PRE___ymd_to_ymcw(d), POST___ymd_to_ymcw(RV, d));

#define PRE___ymd_to_ywd(d) (V_YMD(d))
#define POST___ymd_to_ywd(ret, d) (V_YWD(ret) && SAME(YWD, ret, YMD, d))
static dt_ywd_t __ymd_to_ywd(dt_ymd_t d)
CONTRACT(PRE___ymd_to_ywd(d), POST___ymd_to_ywd(RV, d));

#define PRE___ymd_to_yd(d) (V_YMD(d))
#define POST___ymd_to_yd(ret, d) (V_YD(ret) && (ret).y == (d).y && SAME(YD, ret, YMD, d))
static dt_yd_t __ymd_to_yd(dt_ymd_t d)
CONTRACT(PRE___ymd_to_yd(d), POST___ymd_to_yd(RV, d));

/* ---- yd.c getters / converters */
#define PRE___yd_get_wday(t) (V_YD(t))
#define POST___yd_get_wday(ret, t) ((int)(ret) == S_WDAY_YD((int)(t).y, (int)(t).d))
static dt_dow_t __yd_get_wday(dt_yd_t this)
CONTRACT(PRE___yd_get_wday(this), POST___yd_get_wday(RV, this));

#define PRE___yd_get_md(t) (V_YD(t))
#define POST___yd_get_md(ret, t) (V_ymd((int)(t).y, (int)(ret).m, (int)(ret).d) && S_YDAY((int)(t).y, (int)(ret).m, (int)(ret).d) == (int)(t).d)
static struct __md_s __yd_get_md(dt_yd_t this)
CONTRACT(PRE___yd_get_md(this), POST___yd_get_md(RV, this));

#define PRE___yd_to_ymd(d) (V_YD(d))
#define POST___yd_to_ymd(ret, d) (V_YMD(ret) && (ret).y == (d).y && SAME(YMD, ret, YD, d))
static dt_ymd_t __yd_to_ymd(dt_yd_t d)
CONTRACT(PRE___yd_to_ymd(d), POST___yd_to_ymd(RV, d));

#define PRE___yd_to_daisy(d) (V_YD(d))
#define POST___yd_to_daisy(ret, d) ((int)(ret) == A_YD(d))
static dt_daisy_t __yd_to_daisy(dt_yd_t d)
CONTRACT(PRE___yd_to_daisy(d), POST___yd_to_daisy(RV, d));

#define PRE___yd_to_ymcw(d) (V_YD(d))
#define POST___yd_to_ymcw(ret, d) (V_YMCW(ret) && (ret).y == (d).y && SAME(YMCW, ret, YD, d))
static dt_ymcw_t __yd_to_ymcw(dt_yd_t d)
CONTRACT(PRE___yd_to_ymcw(d), POST___yd_to_ymcw(RV, d));

#define PRE___yd_to_ywd(d) (V_YD(d))
#define POST___yd_to_ywd(ret, d) (V_YWD(ret) && SAME(YWD, ret, YD, d))
static dt_ywd_t __yd_to_ywd(dt_yd_t d)
CONTRACT(PRE___yd_to_ywd(d), POST___yd_to_ywd(RV, d));

/* week counts of a (year, yday) */
#define PRE___yd_get_wcnt_abs(d) ((d).d >= 1)
#define POST___yd_get_wcnt_abs(ret, d) ((ret) == S_wcnt_abs((int)(d).d))
int __yd_get_wcnt_abs(dt_yd_t d)
CONTRACT(PRE___yd_get_wcnt_abs(d), POST___yd_get_wcnt_abs(RV, d));

#define PRE___yd_get_wcnt_iso(d) (V_YD(d))
/* the ISO week number of (y, yd): there is an ISO year Y in {y-1, y, y+1} such that (Y, ret, wd) is valid and denotes the same (year, yday) */
#define WCNT_ISO_IN(Y, ret, d) \
	((Y) >= 1601 && (Y) <= 4096 && (ret) <= S_ISOWEEKS(Y) && \
	 S_ywd_gyear((Y), (ret), S_WDAY_YD((int)(d).y, (int)(d).d)) == (int)(d).y && \
	 S_ywd_gyd((Y), (ret), S_WDAY_YD((int)(d).y, (int)(d).d)) == (int)(d).d)
#define POST___yd_get_wcnt_iso(ret, d) \
	((ret) >= 1 && (ret) <= 53 && (WCNT_ISO_IN((int)(d).y, ret, d) || WCNT_ISO_IN((int)(d).y - 1, ret, d) || WCNT_ISO_IN((int)(d).y + 1, ret, d)))
int __yd_get_wcnt_iso(dt_yd_t d)
CONTRACT(PRE___yd_get_wcnt_iso(d), POST___yd_get_wcnt_iso(RV, d));

#define PRE___yd_get_wcnt(d, w1) (V_YD(d) && ((w1) == DT_SUNDAY || (w1) == DT_MONDAY))
#define POST___yd_get_wcnt(ret, d, w1) \
	((ret) == ((w1) == DT_SUNDAY ? S_wcnt_sun((int)(d).y, (int)(d).d) : S_wcnt_mon((int)(d).y, (int)(d).d)))
int __yd_get_wcnt(dt_yd_t d, dt_dow_t _1st_wd)
CONTRACT(PRE___yd_get_wcnt(d, _1st_wd), POST___yd_get_wcnt(RV, d, _1st_wd));

/* ---- ymcw.c */
#define PRE___get_mcnt(y, m, w) (V_YEAR((int)(y)) && (m) >= 1 && (m) <= 12 && (w) >= 1 && (w) <= 7)
#define POST___get_mcnt(ret, y, m, w) ((int)(ret) == S_mcnt((int)(y), (int)(m), (int)(w)))
static unsigned int __get_mcnt(unsigned int y, unsigned int m, dt_dow_t w)
CONTRACT(PRE___get_mcnt(y, m, w), POST___get_mcnt(RV, y, m, w));

#define PRE___ymcw_get_mday(t) (V_YMCW(t))
#define POST___ymcw_get_mday(ret, t) ((int)(ret) == S_ymcw_mday((int)(t).y, (int)(t).m, (int)(t).c, (int)(t).w))
static unsigned int __ymcw_get_mday(dt_ymcw_t that)
CONTRACT(PRE___ymcw_get_mday(that), POST___ymcw_get_mday(RV, that));

/* n-th occurrence of that weekday within the year */
#define PRE___ymcw_get_yday(t) (V_YMCW(t))
#define POST___ymcw_get_yday(ret, t) ((int)(ret) == (GYD_YMCW(t) - 1) / 7 + 1)
unsigned int __ymcw_get_yday(dt_ymcw_t that)
CONTRACT(PRE___ymcw_get_yday(that), POST___ymcw_get_yday(RV, that));

#define PRE___ymcw_to_ymd(d) (V_YMCW(d))
#define POST___ymcw_to_ymd(ret, d) (V_YMD(ret) && (ret).y == (d).y && (ret).m == (d).m && SAME(YMD, ret, YMCW, d))
static dt_ymd_t __ymcw_to_ymd(dt_ymcw_t d)
CONTRACT(PRE___ymcw_to_ymd(d), POST___ymcw_to_ymd(RV, d));

#define PRE___ymcw_to_daisy(d) (V_YMCW(d))
#define POST___ymcw_to_daisy(ret, d) ((int)(ret) == A_YMCW(d))
static dt_daisy_t __ymcw_to_daisy(dt_ymcw_t d)
CONTRACT(PRE___ymcw_to_daisy(d), POST___ymcw_to_daisy(RV, d));

#define PRE___ymcw_to_yd(d) (V_YMCW(d))
#define POST___ymcw_to_yd(ret, d) (V_YD(ret) && (ret).y == (d).y && SAME(YD, ret, YMCW, d))
static dt_yd_t __ymcw_to_yd(dt_ymcw_t d)
CONTRACT(PRE___ymcw_to_yd(d), POST___ymcw_to_yd(RV, d));

#define PRE___ymcw_to_ywd(d) (V_YMCW(d))
#define POST___ymcw_to_ywd(ret, d) (V_YWD(ret) && SAME(YWD, ret, YMCW, d))
static dt_ywd_t __ymcw_to_ywd(dt_ymcw_t d)
CONTRACT(PRE___ymcw_to_ywd(d), POST___ymcw_to_ywd(RV, d));

/* ---- ywd.c */
#define PRE___ywd_get_jan01_wday(d) ((d).hang >= -3 && (d).hang <= 3)
#define POST___ywd_get_jan01_wday(ret, d) ((ret) >= 1 && (ret) <= 7 && (1 - (int)(ret) - (int)(d).hang) % 7 == 0)
static dt_dow_t __ywd_get_jan01_wday(dt_ywd_t d)
CONTRACT(PRE___ywd_get_jan01_wday(d), POST___ywd_get_jan01_wday(RV, d));

#define PRE___ywd_get_jan01_hang(j01) ((j01) >= 1 && (j01) <= 7)
#define POST___ywd_get_jan01_hang(ret, j01) ((ret) >= -3 && (ret) <= 3 && (1 - (int)(j01) - (ret)) % 7 == 0)
static int __ywd_get_jan01_hang(dt_dow_t j01)
CONTRACT(PRE___ywd_get_jan01_hang(j01), POST___ywd_get_jan01_hang(RV, j01));

/* week number of Dec 31, weeks hanging over into the next year counted as 53 */
#define PRE___get_z31wk(y) ((y) >= 1601 && (y) <= 4095)
#define POST___get_z31wk(ret, y) \
	((int)(ret) == (S_JAN00((int)(y) + 1) >= S_ISOMON1((int)(y) + 1) ? 53 : (S_JAN00((int)(y) + 1) - S_ISOMON1((int)(y))) / 7 + 1))
static unsigned int __get_z31wk(unsigned int y)
CONTRACT(PRE___get_z31wk(y), POST___get_z31wk(RV, y));

/* build the ISO week date of the day (y, yd) whose weekday is dow */
#define PRE___make_ywd_yd_dow(y, yd, dow) (V_yd((int)(y), (yd)) && (int)(dow) == S_WDAY_YD((int)(y), (yd)))
#define POST___make_ywd_yd_dow(ret, y, yd, dow) \
	(V_YWD(ret) && GY_YWD(ret) == (int)(y) && GYD_YWD(ret) == (yd))
static dt_ywd_t __make_ywd_yd_dow(unsigned int y, int yd, dt_dow_t dow)
CONTRACT(PRE___make_ywd_yd_dow(y, yd, dow), POST___make_ywd_yd_dow(RV, y, yd, dow));

/* __make_ywd_c: c-th week under one of 4 conventions
 *  ABS: the c-th occurrence of weekday w in year y        -> its ISO week date
 *  ISO: year y, ISO week c                                 -> as is
 *  SUN/MON: week c (0-based before the first Sunday/Monday)-> ISO-style count shifted */
#define S_FIRST_OCC(y, w) (1 + (((int)(w) - S_J01WD((int)(y)) + 7) % 7))
#define PRE___make_ywd_c_abs(y, c, w) \
	(V_YEAR((int)(y)) && (w) >= 1 && (w) <= 7 && (c) >= 1 && (c) <= 53 && \
	 7 * ((int)(c) - 1) + S_FIRST_OCC(y, w) <= S_YDAYS((int)(y)))
#define PRE___make_ywd_c(y, c, w, cc) ((cc) == YWD_ABSWK_CNT ? PRE___make_ywd_c_abs(y, c, w) : \
	(V_YEAR((int)(y)) && (w) >= 1 && (w) <= 7 && (c) <= 53))
#define POST___make_ywd_c(ret, y, c, w, cc) \
	((cc) == YWD_ABSWK_CNT ? (V_YWD(ret) && GY_YWD(ret) == (int)(y) && GYD_YWD(ret) == 7 * ((int)(c) - 1) + S_FIRST_OCC(y, w)) : \
	 ((ret).y == (y) && (ret).w == (w) && (int)(ret).hang == S_HANG((int)(y)) && \
	  (ret).c == (((cc) == YWD_SUNWK_CNT && S_J01WD((int)(y)) != 7) || ((cc) == YWD_MONWK_CNT && S_J01WD((int)(y)) != 1) ? (c) + 1 : (c))))
static dt_ywd_t __make_ywd_c(unsigned int y, unsigned int c, dt_dow_t w, unsigned int cc)
CONTRACT(PRE___make_ywd_c(y, c, w, cc), POST___make_ywd_c(RV, y, c, w, cc));

#define PRE___ywd_get_yday(d) (V_YWD(d))
#define POST___ywd_get_yday(ret, d) ((ret) == S_YWD_RAWYD((int)(d).y, (int)(d).c, (int)(d).w))
static int __ywd_get_yday(dt_ywd_t d)
CONTRACT(PRE___ywd_get_yday(d), POST___ywd_get_yday(RV, d));

#define PRE___ywd_get_year(d) (V_YWD(d))
#define POST___ywd_get_year(ret, d) ((int)(ret) == GY_YWD(d))
static unsigned int __ywd_get_year(dt_ywd_t d)
CONTRACT(PRE___ywd_get_year(d), POST___ywd_get_year(RV, d));

#define PRE___ywd_get_md(d) (V_YWD(d))
#define POST___ywd_get_md(ret, d) \
	(V_ymd(GY_YWD(d), (int)(ret).m, (int)(ret).d) && S_YDAY(GY_YWD(d), (int)(ret).m, (int)(ret).d) == GYD_YWD(d))
static struct __md_s __ywd_get_md(dt_ywd_t d)
CONTRACT(PRE___ywd_get_md(d), POST___ywd_get_md(RV, d));

#define PRE___ywd_to_ymd(d) (V_YWD(d))
#define POST___ywd_to_ymd(ret, d) (V_YMD(ret) && SAME(YMD, ret, YWD, d))
static dt_ymd_t __ywd_to_ymd(dt_ywd_t d)
CONTRACT(PRE___ywd_to_ymd(d), POST___ywd_to_ymd(RV, d));

#define PRE___ywd_to_ymcw(d) (V_YWD(d))
#define POST___ywd_to_ymcw(ret, d) (V_YMCW(ret) && SAME(YMCW, ret, YWD, d))
static dt_ymcw_t __ywd_to_ymcw(dt_ywd_t d)
CONTRACT(PRE___ywd_to_ymcw(d), POST___ywd_to_ymcw(RV, d));

#define PRE___ywd_to_daisy(d) (V_YWD(d))
#define POST___ywd_to_daisy(ret, d) ((int)(ret) == A_YWD(d))
static dt_daisy_t __ywd_to_daisy(dt_ywd_t d)
CONTRACT(PRE___ywd_to_daisy(d), POST___ywd_to_daisy(RV, d));

#define PRE___ywd_to_yd(d) (V_YWD(d))
#define POST___ywd_to_yd(ret, d) (V_YD(ret) && SAME(YD, ret, YWD, d))
static dt_yd_t __ywd_to_yd(dt_ywd_t d)
CONTRACT(PRE___ywd_to_yd(d), POST___ywd_to_yd(RV, d));

/* ---- daisy.c converters */
#define PRE___daisy_to_ymcw(n) ((n) >= 1 && (n) <= S_MAX_DAISY)
#define POST___daisy_to_ymcw(ret, n) (V_YMCW(ret) && A_YMCW(ret) == (int)(n))
static dt_ymcw_t __daisy_to_ymcw(dt_daisy_t that)
CONTRACT(PRE___daisy_to_ymcw(that), POST___daisy_to_ymcw(RV, that));

#define PRE___daisy_to_ywd(n) ((n) >= 1 && (n) <= S_MAX_DAISY)
#define POST___daisy_to_ywd(ret, n) (V_YWD(ret) && A_YWD(ret) == (int)(n))
static dt_ywd_t __daisy_to_ywd(dt_daisy_t that)
CONTRACT(PRE___daisy_to_ywd(that), POST___daisy_to_ywd(RV, that));

#define PRE___daisy_to_yd(n) ((n) >= 1 && (n) <= S_MAX_DAISY)
#define POST___daisy_to_yd(ret, n) (V_YD(ret) && A_YD(ret) == (int)(n))
static dt_yd_t __daisy_to_yd(dt_daisy_t d)
CONTRACT(PRE___daisy_to_yd(d), POST___daisy_to_yd(RV, d));

#define PRE___daisy_to_ldn(d) ((d) <= S_MAX_DAISY)
#define POST___daisy_to_ldn(ret, d) ((ret) == (d) + S_LDN_BASE)
static dt_ldn_t __daisy_to_ldn(dt_daisy_t d)
CONTRACT(PRE___daisy_to_ldn(d), POST___daisy_to_ldn(RV, d));
#define PRE___daisy_to_mdn(d) ((d) <= S_MAX_DAISY)
#define POST___daisy_to_mdn(ret, d) ((ret) == (d) + S_MDN_BASE)
static dt_mdn_t __daisy_to_mdn(dt_daisy_t d)
CONTRACT(PRE___daisy_to_mdn(d), POST___daisy_to_mdn(RV, d));
#define PRE___ldn_to_daisy(d) (1)
#define POST___ldn_to_daisy(ret, d) ((ret) == (((d) > S_LDN_BASE && (d) <= 0x7fffffffu + S_LDN_BASE) ? (d) - S_LDN_BASE : 0u))
static dt_daisy_t __ldn_to_daisy(dt_ldn_t d)
CONTRACT(PRE___ldn_to_daisy(d), POST___ldn_to_daisy(RV, d));
#define PRE___mdn_to_daisy(d) (1)
#define POST___mdn_to_daisy(ret, d) ((ret) == (((d) > S_MDN_BASE && (d) <= 0x7fffffffu + S_MDN_BASE) ? (d) - S_MDN_BASE : 0u))
static dt_daisy_t __mdn_to_daisy(dt_mdn_t d)
CONTRACT(PRE___mdn_to_daisy(d), POST___mdn_to_daisy(RV, d));
/* julian day numbers are floats: exact in the supported range (values < 2^22 with .5) */
#define PRE___daisy_to_jdn(d) ((d) <= S_MAX_DAISY)
#define POST___daisy_to_jdn(ret, d) ((double)(ret) == (double)(d) + 2305812.5)
static dt_jdn_t __daisy_to_jdn(dt_daisy_t d)
CONTRACT(PRE___daisy_to_jdn(d), POST___daisy_to_jdn(RV, d));
#define PRE___jdn_to_daisy(d) ((d) >= 0.0f && (d) <= 4000000.0f)
#define POST___jdn_to_daisy(ret, d) \
	(((double)(d) - 2305812.5 > 0.0) ? ((double)(ret) <= (double)(d) - 2305812.5 && (double)(d) - 2305812.5 < (double)(ret) + 1.0) : (ret) == 0)
static dt_daisy_t __jdn_to_daisy(dt_jdn_t d)
CONTRACT(PRE___jdn_to_daisy(d), POST___jdn_to_daisy(RV, d));

/* ---- calls that must be unreachable under a caller's precondition: a requires(false) contract.
 * Replacing a call by it makes CBMC prove the call site unreachable; nothing is assumed. */
#define UNREACH_CONTRACT VERIF_CONTRACT(__CPROVER_requires(0) __CPROVER_ensures(1) __CPROVER_assigns())
dt_daisy_t UNREACH___bizda_to_daisy(dt_bizda_t d, dt_bizda_param_t p) UNREACH_CONTRACT;
dt_ymd_t UNREACH___bizda_to_ymd(dt_bizda_t d) UNREACH_CONTRACT;
dt_ymcw_t UNREACH___bizda_to_ymcw(dt_bizda_t d, dt_bizda_param_t p) UNREACH_CONTRACT;
dt_ywd_t UNREACH___bizda_to_ywd(dt_bizda_t d, dt_bizda_param_t p) UNREACH_CONTRACT;
dt_ldn_t UNREACH___ummulqura_to_ldn(dt_ummulqura_t d) UNREACH_CONTRACT;
dt_ummulqura_t UNREACH___ldn_to_ummulqura(dt_ldn_t d) UNREACH_CONTRACT;
dt_daisy_t UNREACH___jdn_to_daisy(dt_jdn_t d) UNREACH_CONTRACT;
dt_jdn_t UNREACH___daisy_to_jdn(dt_daisy_t d) UNREACH_CONTRACT;
dt_bizda_t UNREACH___bizda_fixup(dt_bizda_t d) UNREACH_CONTRACT;
dt_ummulqura_t UNREACH___ummulqura_fixup(dt_ummulqura_t d) UNREACH_CONTRACT;
dt_bizda_t UNREACH_dt_conv_to_bizda(struct dt_d_s that) UNREACH_CONTRACT;
dt_ummulqura_t UNREACH_dt_conv_to_ummulqura(struct dt_d_s this) UNREACH_CONTRACT;

dt_ymcw_t UNREACH___ymcw_add_d(dt_ymcw_t d, int n) UNREACH_CONTRACT;
dt_ymcw_t UNREACH___ymcw_add_w(dt_ymcw_t d, int n) UNREACH_CONTRACT;
dt_bizda_t UNREACH___bizda_add_d(dt_bizda_t d, int n) UNREACH_CONTRACT;
dt_bizda_t UNREACH___bizda_add_w(dt_bizda_t d, int n) UNREACH_CONTRACT;
struct dt_d_s UNREACH_dt_dadd_b(struct dt_d_s d, int n) UNREACH_CONTRACT;
int UNREACH___ymcw_cmp(dt_ymcw_t d1, dt_ymcw_t d2) UNREACH_CONTRACT;
dt_dow_t UNREACH___bizda_get_wday(dt_bizda_t that) UNREACH_CONTRACT;
dt_ymcw_t UNREACH___ymcw_add_m(dt_ymcw_t d, int n) UNREACH_CONTRACT;
dt_bizda_t UNREACH___bizda_add_m(dt_bizda_t d, int n) UNREACH_CONTRACT;
dt_ymcw_t UNREACH___ymcw_add_y(dt_ymcw_t d, int n) UNREACH_CONTRACT;
dt_bizda_t UNREACH___bizda_add_y(dt_bizda_t d, int n) UNREACH_CONTRACT;
dt_ywd_t UNREACH___ywd_add_y(dt_ywd_t d, int n) UNREACH_CONTRACT;
dt_ymd_t UNREACH___ymd_add_y(dt_ymd_t d, int n) UNREACH_CONTRACT;
dt_ymd_t UNREACH___ymd_add_m(dt_ymd_t d, int n) UNREACH_CONTRACT;
dt_yd_t UNREACH___yd_add_y(dt_yd_t d, int n) UNREACH_CONTRACT;
struct dt_d_s UNREACH_dt_dadd_m(struct dt_d_s d, int n) UNREACH_CONTRACT;
int UNREACH_dt_get_mon(struct dt_d_s that) UNREACH_CONTRACT;
int UNREACH_dt_get_wcnt_year(struct dt_d_s this, unsigned int wkcnt_convention) UNREACH_CONTRACT;
int UNREACH_dt_get_wcnt_mon(struct dt_d_s that) UNREACH_CONTRACT;
int UNREACH_dt_get_quarter(struct dt_d_s that) UNREACH_CONTRACT;
dt_dow_t UNREACH_dt_get_wday(struct dt_d_s that) UNREACH_CONTRACT;
size_t UNREACH_arritostr(char *restrict buf, size_t bsz, size_t i, const char *const *tbl, size_t ntbl) UNREACH_CONTRACT;
#if !defined VERIF_NATIVE
int UNREACH_verif_snprintf(char *b, size_t z) UNREACH_CONTRACT;
#endif
int UNREACH_dt_get_mday(struct dt_d_s that) UNREACH_CONTRACT;
struct __md_s UNREACH_dt_get_md(struct dt_d_s that) UNREACH_CONTRACT;
int UNREACH_dt_get_bday_q(struct dt_d_s that, dt_bizda_param_t bp) UNREACH_CONTRACT;
unsigned int UNREACH___bizda_get_yday(dt_bizda_t that, dt_bizda_param_t bp) UNREACH_CONTRACT;
unsigned int UNREACH___bizda_get_mday(dt_bizda_t that) UNREACH_CONTRACT;
struct dt_d_s UNREACH_dt_dadd_d(struct dt_d_s d, int n) UNREACH_CONTRACT;
struct dt_d_s UNREACH_dt_dadd_w(struct dt_d_s d, int n) UNREACH_CONTRACT;
struct dt_d_s UNREACH_dt_dadd_y(struct dt_d_s d, int n) UNREACH_CONTRACT;

/* ---- dispatchers in date-core.c */
#define PRE_dt_conv_to_ymd(t) (V_d(t))
#define POST_dt_conv_to_ymd(ret, t) (V_YMD(ret) && SAME_T_D(YMD, ret, t))
static dt_ymd_t dt_conv_to_ymd(struct dt_d_s that)
CONTRACT(PRE_dt_conv_to_ymd(that), POST_dt_conv_to_ymd(RV, that));
#define PRE_dt_conv_to_ymcw(t) (V_d(t))
#define POST_dt_conv_to_ymcw(ret, t) (V_YMCW(ret) && SAME_T_D(YMCW, ret, t))
static dt_ymcw_t dt_conv_to_ymcw(struct dt_d_s that)
CONTRACT(PRE_dt_conv_to_ymcw(that), POST_dt_conv_to_ymcw(RV, that));
#define PRE_dt_conv_to_ywd(t) (V_d(t))
#define POST_dt_conv_to_ywd(ret, t) (V_YWD(ret) && SAME_T_D(YWD, ret, t))
static dt_ywd_t dt_conv_to_ywd(struct dt_d_s this)
CONTRACT(PRE_dt_conv_to_ywd(this), POST_dt_conv_to_ywd(RV, this));
#define PRE_dt_conv_to_yd(t) (V_d(t))
#define POST_dt_conv_to_yd(ret, t) (V_YD(ret) && SAME_T_D(YD, ret, t))
static dt_yd_t dt_conv_to_yd(struct dt_d_s this)
CONTRACT(PRE_dt_conv_to_yd(this), POST_dt_conv_to_yd(RV, this));

#include "date-core.public.h"
#endif
