/* contracts/dt-io.harness.h -- src/dt-io.c (C10): the needle search that dgrep/dconv -S/dadd -S ... run over every input line never
 * starts a parse outside the line and hands back positions inside it.
 *
 * BOUNDED stand-in, not a proof: lines of at most DTIO_LEN_MAX bytes, at most DTIO_NDL_MAX needle characters, loops unwound
 * (with unwinding assertions).  The function under check is the real dt_io_find_strpdt2(); its three external callees are replaced by
 * the trusted stubs below, which assert what they need from their caller and return any result their real counterpart may return. */
#ifndef VERIF_DT_IO_HARNESS_H
#define VERIF_DT_IO_HARNESS_H
#if !defined VERIF_NATIVE
#ifndef DTIO_LEN_MAX
# define DTIO_LEN_MAX 3
#endif
#ifndef DTIO_NDL_MAX
# define DTIO_NDL_MAX 1
#endif
static const char *verif_line;
static size_t verif_len;
#define IN_LINE(p) (__CPROVER_same_object((p), verif_line) && __CPROVER_POINTER_OFFSET(p) >= 0 && (size_t)__CPROVER_POINTER_OFFSET(p) <= verif_len)

/* lib/dt-core.c:dt_strpdt reads from str up to the terminating NUL: str has to point into the line (the NUL included) */
struct dt_dt_s dt_strpdt(const char *str, const char *fmt, char **ep)
{
	struct dt_dt_s r;
	size_t adv;
	(void)fmt;
	__CPROVER_assert(IN_LINE(str), "MEMSAFE: the parser is started at a position inside the line");
	__CPROVER_assume(IN_LINE(str));
	__CPROVER_assume(adv <= verif_len - (size_t)__CPROVER_POINTER_OFFSET(str));
	if (ep != NULL) {
		*ep = (char*)str + adv;
	}
	return r;
}
/* src/dt-io-zone.c:dtz_forgetz only touches the value */
struct dt_dt_s dtz_forgetz(struct dt_dt_s d, zif_t zone)
{
	struct dt_dt_s r;
	(void)d; (void)zone;
	return r;
}
/* lib/strops.c:xmempbrk as documented: first of the len bytes at src that is in set (NUL is never in the set), else src + len */
char *xmempbrk(const char *src, size_t len, const char *set)
{
	size_t i;
	__CPROVER_assert(IN_LINE(src) && len <= verif_len - (size_t)__CPROVER_POINTER_OFFSET(src), "MEMSAFE: xmempbrk window inside the line");
	__CPROVER_assume(IN_LINE(src) && len <= verif_len - (size_t)__CPROVER_POINTER_OFFSET(src));
	for (i = 0U; i < len; i++) {
		int hit = 0;
		for (const char *s = set; *s; s++) {
			hit |= *s == src[i];
		}
		if (hit) {
			break;
		}
	}
	return (char*)src + i;
}

static void h_find_strpdt2(void)
{
	size_t len, nn;
	char ndl[DTIO_NDL_MAX + 1];
	struct grpatm_payload_s flesh[DTIO_NDL_MAX + 1];
	struct grep_atom_soa_s n;
	char *sp = NULL, *ep = NULL;

	__CPROVER_assume(len <= DTIO_LEN_MAX && nn <= DTIO_NDL_MAX);
	char *line = malloc(len + 1U);
	__CPROVER_assume(line != NULL);
	/* lines are NUL terminated (prchunk, argv), embedded NULs are allowed */
	line[len] = '\0';
	/* what build_needle() produces: nn non-NUL needle characters in ascending order, NUL terminated, one payload each */
	for (size_t k = 0; k < DTIO_NDL_MAX + 1U; k++) {
		__CPROVER_assume(k < nn ? ndl[k] != '\0' : ndl[k] == '\0');
		__CPROVER_assume(k + 1U >= nn || ndl[k] <= ndl[k + 1U]);
		flesh[k].fmt = NULL;
	}
	n.natoms = nn; n.needle = ndl; n.flesh = flesh;
	verif_line = line; verif_len = len;
	(void)dt_io_find_strpdt2(line, len, &n, &sp, &ep, NULL);
	__CPROVER_assert(IN_LINE(sp), "MEMSAFE: *sp (start of the match) inside the line");
	__CPROVER_assert(IN_LINE(ep), "MEMSAFE: *ep (end of the match) inside the line");
}
#endif
#endif
