/* contracts/date-core.strf.h -- C02: what a date specifier prints depends only on the day, not on the representation the
 * value is held in nor on which fields of the print record earlier specifiers happened to fill in (lib/date-core-strpf.c) */
#ifndef VERIF_DATE_CORE_STRF_H
#define VERIF_DATE_CORE_STRF_H
/* ISO year of the day (gy, gyd), year-relative (same table facts as spec/iso.h) */
static inline int S_iso_year_of(int gy, int gyd)
{
	if (gyd < 1 + S_HANG(gy)) return gy - 1;
	if (gyd >= S_YDAYS(gy) + 1 + S_HANG(gy + 1)) return gy + 1;
	return gy;
}
/* ---- the print record (struct strpd_s) as dt_strfd()/dt_strfdt() prepare it for a value `that', in EVERY state the lazy fill-in
 * of __strfd_card can bring it to.  Derived from the preparation code in lib/date-core.c:dt_strfd (per type):
 *   ymd  : y m d set                         ymcw : y m c w set, d == 0 until a specifier asks for it
 *   ywd  : y (Gregorian year) q (ISO year) c w set by __prep_strfd_ywd, m == d == 0 until asked for
 *   yd   : y set, d == day of the YEAR with flags.d_dcnt_p, m == 0; the first %m/%d/%F turns (m, d) into (month, day of month)
 *   daisy: y m d set by __prep_strfd_daisy
 * REC is the invariant every specifier may rely on and has to re-establish; because it does not mention which specifiers ran
 * before, a specifier that prints the right text under REC prints it whatever precedes it in the format. */
/* (civil representations; day counts have their own, cheaper formulation below: CBMC does not fold the representation inside contract
 * clauses, and the year-of-day-number function in every clause exhausts 12 GB) */
#define R_Y(that) GY_d(that)
#define R_YD(that) GYD_d(that)
#define R_MON(that) S_mon_of_yday(R_Y(that), R_YD(that))
#define R_MDAY(that) S_mday_of_yday(R_Y(that), R_YD(that))
#define STRF_T(t) (CIVIL_T(t))
#define REC_Y(d, that) ((that).typ == DT_YWD ? ((d)->flags.real_y_in_q == 1 && (d)->q == (int)(that).ywd.y && (d)->y == R_Y(that)) : ((d)->flags.real_y_in_q == 0 && (d)->y == R_Y(that)))
#define REC_MD(d, that) ((d)->flags.d_dcnt_p == ((that).typ == DT_YD ? 1u : 0u) && (d)->flags.bizda == 0 && \
	((that).typ == DT_YMD ? ((d)->m == R_MON(that) && (d)->d == R_MDAY(that)) : \
	 (that).typ == DT_YMCW ? ((d)->m == R_MON(that) && ((d)->d == 0 || (d)->d == R_MDAY(that))) : \
	 (that).typ == DT_YWD ? (((d)->m == 0 && (d)->d == 0) || ((d)->m == R_MON(that) && (d)->d == R_MDAY(that))) : \
	 (((d)->m == 0 && (d)->d == R_YD(that)) || ((d)->m == R_MON(that) && (d)->d == R_MDAY(that)))))
#define REC(d, that) (REC_Y(d, that) && REC_MD(d, that))
#define ISDG(c) ((c) >= '0' && (c) <= '9')
#define DG2(b) (((b)[0] - '0') * 10 + ((b)[1] - '0'))
#define DG3(b) (((b)[0] - '0') * 100 + ((b)[1] - '0') * 10 + ((b)[2] - '0'))
#define DG4(b) (((b)[0] - '0') * 1000 + ((b)[1] - '0') * 100 + ((b)[2] - '0') * 10 + ((b)[3] - '0'))
#define ALLDG2(b) (ISDG((b)[0]) && ISDG((b)[1]))
#define ALLDG3(b) (ISDG((b)[0]) && ISDG((b)[1]) && ISDG((b)[2]))
#define ALLDG4(b) (ISDG((b)[0]) && ISDG((b)[1]) && ISDG((b)[2]) && ISDG((b)[3]))
/* the specifiers under contract, all unmodified (no padding / ordinal / roman / bizda modifiers) */
#define SP_PLAIN(s) ((s).pad == DT_SPPAD_NONE && (s).rom == 0 && (s).ord == 0 && (s).bizda == 0)
#define SP_G(s) ((s).spfl == DT_SPFL_N_YEAR && (s).abbr == DT_SPMOD_LONG && (s).tai == 1 && SP_PLAIN(s))   /* %G */
#define SP_Y(s) ((s).spfl == DT_SPFL_N_YEAR && (s).abbr == DT_SPMOD_LONG && (s).tai == 0 && SP_PLAIN(s))   /* %Y */
#define SP_M(s) ((s).spfl == DT_SPFL_N_MON && SP_PLAIN(s))                                                  /* %m */
#define SP_D(s) ((s).spfl == DT_SPFL_N_DCNT_MON && SP_PLAIN(s))                                             /* %d */
#define SP_J(s) ((s).spfl == DT_SPFL_N_DCNT_YEAR && SP_PLAIN(s))                                            /* %j */
#define SP_F(s) ((s).spfl == DT_SPFL_N_DSTD && SP_PLAIN(s))                                                 /* %F */
/* each of them prints the same text for the same day in every representation and every record state, and leaves the record
 * in a state the next specifier can rely on.  One small contract per specifier (dfcc: --enforce-contract __strfd_card/<name>):
 * a single contract with all cases does not fit into memory (12 GB) in CBMC's propositional reduction. */
#define STRF_COMMON(s, SP) \
	__CPROVER_requires(bsz == 16 && __CPROVER_is_fresh(buf, 16) && __CPROVER_is_fresh(d, sizeof(*d))) \
	__CPROVER_requires(SP(s) && V_d(that) && STRF_T(that.typ) && REC(d, that)) \
	__CPROVER_ensures(REC(d, that)) \
	__CPROVER_assigns(__CPROVER_object_upto(buf, 16), *d)
#define STRF_SIG(name) size_t name(char *buf, size_t bsz, struct dt_spec_s s, struct strpd_s *d, struct dt_d_s that)
STRF_SIG(C_strfd_G) VERIF_CONTRACT(STRF_COMMON(s, SP_G)
	__CPROVER_ensures(__CPROVER_return_value == 4 && ALLDG4(buf) && DG4(buf) == S_iso_year_of(R_Y(that), R_YD(that))));
STRF_SIG(C_strfd_Y) VERIF_CONTRACT(STRF_COMMON(s, SP_Y)
	__CPROVER_ensures(__CPROVER_return_value == 4 && ALLDG4(buf) && DG4(buf) == R_Y(that)));
STRF_SIG(C_strfd_M) VERIF_CONTRACT(STRF_COMMON(s, SP_M)
	__CPROVER_ensures(__CPROVER_return_value == 2 && ALLDG2(buf) && DG2(buf) == R_MON(that)));
STRF_SIG(C_strfd_D) VERIF_CONTRACT(STRF_COMMON(s, SP_D)
	__CPROVER_ensures(__CPROVER_return_value == 2 && ALLDG2(buf) && DG2(buf) == R_MDAY(that)));
STRF_SIG(C_strfd_J) VERIF_CONTRACT(STRF_COMMON(s, SP_J)
	__CPROVER_ensures(__CPROVER_return_value == 3 && ALLDG3(buf) && DG3(buf) == R_YD(that)));
STRF_SIG(C_strfd_F) VERIF_CONTRACT(STRF_COMMON(s, SP_F)
	__CPROVER_ensures(__CPROVER_return_value == 10 && ALLDG4(buf) && DG4(buf) == R_Y(that) && buf[4] == '-' &&
		ALLDG2(buf + 5) && DG2(buf + 5) == R_MON(that) && buf[7] == '-' && ALLDG2(buf + 8) && DG2(buf + 8) == R_MDAY(that)));
/* day counts (what dseq hands to the formatter for day steps): __prep_strfd_daisy has filled in the (year, month, day) of the day
 * number -- R_ymd_of is the relation __daisy_to_ymd is proved to satisfy -- and the specifiers print exactly those */
#define REC_DSY(d, that) ((d)->flags.real_y_in_q == 0 && (d)->flags.d_dcnt_p == 0 && (d)->flags.bizda == 0 && R_ymd_of((int)(that).daisy, (d)->y, (d)->m, (d)->d))
#define STRF_COMMON_DSY(s, SP) \
	__CPROVER_requires(bsz == 16 && __CPROVER_is_fresh(buf, 16) && __CPROVER_is_fresh(d, sizeof(*d))) \
	__CPROVER_requires(SP(s) && that.typ == DT_DAISY && that.daisy >= 1 && that.daisy <= S_MAX_DAISY && REC_DSY(d, that)) \
	__CPROVER_ensures(REC_DSY(d, that)) \
	__CPROVER_assigns(__CPROVER_object_upto(buf, 16), *d)
STRF_SIG(C_strfd_Y_DSY) VERIF_CONTRACT(STRF_COMMON_DSY(s, SP_Y) __CPROVER_ensures(__CPROVER_return_value == 4 && ALLDG4(buf) && DG4(buf) == d->y));
STRF_SIG(C_strfd_M_DSY) VERIF_CONTRACT(STRF_COMMON_DSY(s, SP_M) __CPROVER_ensures(__CPROVER_return_value == 2 && ALLDG2(buf) && DG2(buf) == d->m));
STRF_SIG(C_strfd_D_DSY) VERIF_CONTRACT(STRF_COMMON_DSY(s, SP_D) __CPROVER_ensures(__CPROVER_return_value == 2 && ALLDG2(buf) && DG2(buf) == d->d));
STRF_SIG(C_strfd_J_DSY) VERIF_CONTRACT(STRF_COMMON_DSY(s, SP_J) __CPROVER_ensures(__CPROVER_return_value == 3 && ALLDG3(buf) && DG3(buf) == S_YDAY(d->y, d->m, d->d)));
STRF_SIG(C_strfd_F_DSY) VERIF_CONTRACT(STRF_COMMON_DSY(s, SP_F)
	__CPROVER_ensures(__CPROVER_return_value == 10 && ALLDG4(buf) && DG4(buf) == d->y && buf[4] == '-' &&
		ALLDG2(buf + 5) && DG2(buf + 5) == d->m && buf[7] == '-' && ALLDG2(buf + 8) && DG2(buf + 8) == d->d));

/* lazy fill-in helper: month and day of month of the day, for every civil representation */
static struct __md_s dt_get_md(struct dt_d_s that)
VERIF_CONTRACT(__CPROVER_requires(V_d(that) && CIVIL_T(that.typ))
	__CPROVER_ensures((int)__CPROVER_return_value.m == R_MON(that) && (int)__CPROVER_return_value.d == R_MDAY(that))
	__CPROVER_assigns());

/* preparation of the record for ISO week dates and day counts (the other representations are prepared inline in dt_strfd) */
void __prep_strfd_ywd(struct strpd_s *tgt, dt_ywd_t d)
VERIF_CONTRACT(__CPROVER_requires(__CPROVER_is_fresh(tgt, sizeof(*tgt)) && V_YWD(d) && tgt->flags.u == 0)
	__CPROVER_ensures(tgt->y == GY_YWD(d) && tgt->q == (int)d.y && tgt->c == (int)d.c && tgt->w == (int)d.w && tgt->flags.real_y_in_q == 1 &&
		tgt->flags.d_dcnt_p == 0 && tgt->flags.bizda == 0 &&
		tgt->m == __CPROVER_old(tgt->m) && tgt->d == __CPROVER_old(tgt->d))
	__CPROVER_assigns(*tgt));
void __prep_strfd_daisy(struct strpd_s *tgt, dt_daisy_t d)
VERIF_CONTRACT(__CPROVER_requires(__CPROVER_is_fresh(tgt, sizeof(*tgt)) && d >= 1 && d <= S_MAX_DAISY)
	__CPROVER_ensures(R_ymd_of((int)d, tgt->y, tgt->m, tgt->d) && tgt->flags.u == __CPROVER_old(tgt->flags.u))
	__CPROVER_assigns(*tgt));

#if !defined VERIF_NATIVE
/* C10: a numeric date specifier never writes outside buf[0..bsz) and reports at most bsz bytes, for EVERY remaining buffer size
 * (direct-mode harness on the real __strfd_card; the buffer is a heap object of exactly bsz bytes, so any write past it is a
 * bounds violation found by CBMC's pointer checks) */
static void h_strfd_card_mem(void)
{
	size_t bsz; struct dt_spec_s s; struct strpd_s d = {0}; struct dt_d_s that = {DT_DUNK}; uint32_t u;
	__CPROVER_assume(bsz >= 1 && bsz <= 12);
	char *buf = malloc(bsz);
	__CPROVER_assume(buf != NULL);
	that.typ = DT_YMD; that.ymd.u = u;
	__CPROVER_assume(V_YMD(that.ymd));
	d.y = that.ymd.y; d.m = that.ymd.m; d.d = that.ymd.d;
	__CPROVER_assume(s.tai == 0 && s.rom == 0 && s.bizda == 0 &&
		(s.spfl == DT_SPFL_N_DSTD || s.spfl == DT_SPFL_N_YEAR || s.spfl == DT_SPFL_N_MON || s.spfl == DT_SPFL_N_DCNT_MON ||
		 s.spfl == DT_SPFL_N_DCNT_WEEK || s.spfl == DT_SPFL_N_WCNT_MON || s.spfl == DT_SPFL_S_QTR || s.spfl == DT_SPFL_N_QTR ||
		 s.spfl == DT_SPFL_LIT_PERCENT || s.spfl == DT_SPFL_LIT_TAB || s.spfl == DT_SPFL_LIT_NL || s.spfl == DT_SPFL_N_DCNT_YEAR ||
		 s.spfl == DT_SPFL_N_WCNT_YEAR));
	size_t n = __strfd_card(buf, bsz, s, &d, that);
	__CPROVER_assert(n <= bsz, "MEMSAFE: __strfd_card reports at most bsz bytes");
}
#endif
#endif
