/* contracts/date-core.strf.h -- C02: what a date specifier prints depends only on the day, not on the representation the
 * value is held in nor on which fields of the print record earlier specifiers happened to fill in (lib/date-core-strpf.c) */
#ifndef VERIF_DATE_CORE_STRF_H
#define VERIF_DATE_CORE_STRF_H
/* ISO year of the day (gy, gyd), year-relative (same table facts as spec/iso.h) */
static inline int S_iso_year_of(int gy, int gyd)
{
	if (gyd < 1 + S_HANG(gy)) return gy - 1;
	if (gyd >= S_YDAYS(gy) + 1 + S_HANG(gy + 1)) return gy + 1;
	return gy;
}
/* print record as dt_strfd prepares it, with the lazily filled fields m, d in ANY of their reachable states:
 * zero (not filled in yet) or the true value */
#define REC_Y(d, that) ((that).typ == DT_YWD ? ((d)->flags.real_y_in_q == 1 && (d)->q == (int)(that).ywd.y) : ((d)->flags.real_y_in_q == 0 && (d)->y == GY_d(that)))
#define REC_MD(d, that) (((d)->m == 0 || (d)->m == S_mon_of_yday(GY_d(that), GYD_d(that))) && \
	((d)->d == 0 || (d)->d == ((that).typ == DT_YD ? GYD_d(that) : S_mday_of_yday(GY_d(that), GYD_d(that)))) && \
	(d)->flags.d_dcnt_p == ((that).typ == DT_YD ? 1u : 0u))
/* %G (year specifier with the ISO flag, 4 digits): prints the ISO 8601 year of the day for every representation and
 * every state of the lazily filled fields */
size_t __strfd_card(char *buf, size_t bsz, struct dt_spec_s s, struct strpd_s *d, struct dt_d_s that)
VERIF_CONTRACT(__CPROVER_requires(bsz == 16 && __CPROVER_is_fresh(buf, 16) && __CPROVER_is_fresh(d, sizeof(*d)))
	__CPROVER_requires(s.spfl == DT_SPFL_N_YEAR && s.abbr == DT_SPMOD_LONG && s.tai == 1 && s.pad == DT_SPPAD_NONE && s.rom == 0 && s.ord == 0)
	__CPROVER_requires(V_d(that) && CIVIL_T(that.typ) && REC_Y(d, that) && REC_MD(d, that))
	__CPROVER_ensures(__CPROVER_return_value == 4 &&
		(buf[0] - '0') * 1000 + (buf[1] - '0') * 100 + (buf[2] - '0') * 10 + (buf[3] - '0') == S_iso_year_of(GY_d(that), GYD_d(that)) &&
		buf[0] >= '0' && buf[0] <= '9' && buf[1] >= '0' && buf[1] <= '9' && buf[2] >= '0' && buf[2] <= '9' && buf[3] >= '0' && buf[3] <= '9')
	__CPROVER_assigns(__CPROVER_object_upto(buf, 16), *d));

#if !defined VERIF_NATIVE
/* C10: a numeric date specifier never writes outside buf[0..bsz) and reports at most bsz bytes, for EVERY remaining buffer size
 * (direct-mode harness on the real __strfd_card; the buffer is a heap object of exactly bsz bytes, so any write past it is a
 * bounds violation found by CBMC's pointer checks) */
static void h_strfd_card_mem(void)
{
	size_t bsz; struct dt_spec_s s; struct strpd_s d = {0}; struct dt_d_s that = {DT_DUNK}; uint32_t u;
	__CPROVER_assume(bsz >= 1 && bsz <= 12);
	char *buf = malloc(bsz);
	__CPROVER_assume(buf != NULL);
	that.typ = DT_YMD; that.ymd.u = u;
	__CPROVER_assume(V_YMD(that.ymd));
	d.y = that.ymd.y; d.m = that.ymd.m; d.d = that.ymd.d;
	__CPROVER_assume(s.tai == 0 && s.rom == 0 && s.bizda == 0 &&
		(s.spfl == DT_SPFL_N_DSTD || s.spfl == DT_SPFL_N_YEAR || s.spfl == DT_SPFL_N_MON || s.spfl == DT_SPFL_N_DCNT_MON ||
		 s.spfl == DT_SPFL_N_DCNT_WEEK || s.spfl == DT_SPFL_N_WCNT_MON || s.spfl == DT_SPFL_S_QTR || s.spfl == DT_SPFL_N_QTR ||
		 s.spfl == DT_SPFL_LIT_PERCENT || s.spfl == DT_SPFL_LIT_TAB || s.spfl == DT_SPFL_LIT_NL || s.spfl == DT_SPFL_N_DCNT_YEAR ||
		 s.spfl == DT_SPFL_N_WCNT_YEAR));
	size_t n = __strfd_card(buf, bsz, s, &d, that);
	__CPROVER_assert(n <= bsz, "MEMSAFE: __strfd_card reports at most bsz bytes");
}
#endif
#endif
