/* contracts/dt-io.contracts.h -- src/dt-io.c (C13): the duration parser state that dadd/dseq carry from one input line (or one
 * argument) to the next.
 *
 * struct __strpdtdur_st_s keeps a sign and a continuation pointer across calls of dt_io_strpdtdur().  Representation invariant:
 *     INV(st):  st->cont == NULL  ==>  st->sign == 0
 * i.e. once a string is finished -- consumed to its end or rejected -- nothing of it is left in the state, so the next string is
 * parsed exactly as it would be in a run of its own.  The contract says that every call re-establishes INV from INV, for every
 * string and every behaviour of the field parser dt_strpdtdur(); by induction over the calls of a run the results do not depend on
 * earlier lines.  (mass_add_d() in src/dadd.c resets only ndurs between lines, so it relies on exactly this.)
 *
 * BOUNDED in the string length (DTIO_STR_MAX bytes, prefix loop unwound with unwinding assertions). */
#ifndef VERIF_DT_IO_CONTRACTS_H
#define VERIF_DT_IO_CONTRACTS_H
#ifndef DTIO_STR_MAX
# define DTIO_STR_MAX 6
#endif
#define RV __CPROVER_return_value
#define IN_STR(p, s) (__CPROVER_same_object((p), (s)) && __CPROVER_POINTER_OFFSET(p) >= 0 && __CPROVER_POINTER_OFFSET(p) <= DTIO_STR_MAX)
#define DUR_INV(st) ((st)->cont != NULL || (st)->sign == 0)

/* external, trusted: lib/dt-core.c field parser -- reads from str, reports the end of what it consumed (somewhere up to the NUL) */
struct dt_dtdur_s dt_strpdtdur(const char *str, char **ep)
VERIF_CONTRACT(__CPROVER_requires(str != NULL && ep != NULL && __CPROVER_POINTER_OFFSET(str) >= 0 && __CPROVER_POINTER_OFFSET(str) <= DTIO_STR_MAX)
	__CPROVER_ensures(__CPROVER_same_object(*ep, str) && __CPROVER_POINTER_OFFSET(*ep) >= __CPROVER_POINTER_OFFSET(str) && __CPROVER_POINTER_OFFSET(*ep) <= DTIO_STR_MAX)
	__CPROVER_assigns(*ep));
struct dt_dtdur_s dt_neg_dtdur(struct dt_dtdur_s d)
VERIF_CONTRACT(__CPROVER_requires(1) __CPROVER_ensures(1) __CPROVER_assigns());
int dt_dtdur_neg_p(struct dt_dtdur_s dur)
VERIF_CONTRACT(__CPROVER_requires(1) __CPROVER_ensures(1) __CPROVER_assigns());
/* same file, trusted frame (by inspection: appends to the durs array, touches nothing else of the state) */
int __add_dur(struct __strpdtdur_st_s *st, struct dt_dtdur_s dur)
VERIF_CONTRACT(__CPROVER_requires(st != NULL) __CPROVER_ensures(1) __CPROVER_assigns(st->durs, st->ndurs));

int dt_io_strpdtdur(struct __strpdtdur_st_s *st, const char *str)
VERIF_CONTRACT(__CPROVER_requires(st != NULL && str != NULL && __CPROVER_POINTER_OFFSET(str) == 0 && __CPROVER_OBJECT_SIZE(str) == DTIO_STR_MAX + 1 && str[DTIO_STR_MAX] == '\0')
	__CPROVER_requires((st->cont == NULL || IN_STR(st->cont, str)) && DUR_INV(st) && st->sign >= -1024 && st->sign <= 1024)
	__CPROVER_ensures(DUR_INV(st) && (st->cont == NULL || IN_STR(st->cont, str)))
	__CPROVER_assigns(*st));
#endif
