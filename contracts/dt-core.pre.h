/* contracts/dt-core.pre.h -- included before /repo/lib/dt-core.c in the prover's translation unit only.
 * Makes the generated leap-second table (lib/leap-seconds.def, compiled into libdut through lib/tzraw.c) visible so that the
 * contracts of leaps_before() / dt_dtdiff() can refer to its contents.  It has to come first: CBMC 6.11 trips an internal invariant
 * (boolbv_map.cpp:68) when an array is first seen with incomplete type (extern const int32_t leaps_corr[]) and completed later.
 * The native replay links lib/tzraw.c, which carries the same definitions. */
#if !defined VERIF_NATIVE
# include "leap-seconds.def"
#endif
