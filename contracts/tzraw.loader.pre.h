/* declarations of the environment stubs used by the loader harness (see tzraw.loader.h) */
#include <stddef.h>
#include <sys/types.h>
#include <sys/stat.h>
#include <sys/mman.h>
#include <fcntl.h>
#include <unistd.h>
#include <stdlib.h>
int verif_open(const char *f);
int verif_fstat(int fd, struct stat *st);
void *verif_mmap(size_t len);
int verif_munmap(void *p, size_t len);
int verif_close(int fd);
