/* contracts/date-core.arith.h -- C03/C04/C05/C07/C08: arithmetic, differences, comparison
 * on the real functions of /repo/lib/date-core.c (ASPECT_ADD / ASPECT_DIFF / ASPECT_CMP parts). */
#ifndef VERIF_DATE_CORE_ARITH_H
#define VERIF_DATE_CORE_ARITH_H
#include "date-core.public.h"

/* bound on day/week counts: keeps every intermediate inside int and the result inside 1..911280 */

/* ------------------------------------------------------------ C03: day carries (loop contracts in obligations/11_*.py) */
/* year-wise carry: (y, d) with any d  ->  the valid yd denoting day J(y)+d */
#define PRE___yd_fixup_d(y, d) (V_YEAR((int)(y)) && N_OK(d) && IN_RANGE(S_JAN00((int)(y)) + (d)))
#define POST___yd_fixup_d(ret, y, d) (V_YD(ret) && A_YD(ret) == S_JAN00((int)(y)) + (d))
static dt_yd_t __yd_fixup_d(unsigned int y, signed int d)
CONTRACT(PRE___yd_fixup_d(y, d), POST___yd_fixup_d(RV, y, d));

#define PRE___yd_add_d(d, n) (V_YD(d) && N_OK(n) && IN_RANGE(A_YD(d) + (n)))
#define POST___yd_add_d(ret, d, n) (V_YD(ret) && A_YD(ret) == A_YD(d) + (n))
static dt_yd_t __yd_add_d(dt_yd_t d, int n)
CONTRACT(PRE___yd_add_d(d, n), POST___yd_add_d(RV, d, n));

#define PRE___yd_add_w(d, n) (V_YD(d) && (n) >= -140000 && (n) <= 140000 && IN_RANGE(A_YD(d) + 7 * (n)))
#define POST___yd_add_w(ret, d, n) (V_YD(ret) && A_YD(ret) == A_YD(d) + 7 * (n))
static dt_yd_t __yd_add_w(dt_yd_t d, int n)
CONTRACT(PRE___yd_add_w(d, n), POST___yd_add_w(RV, d, n));

/* month-wise carry: (y, m, d) with any d -> the valid ymd denoting day J(y)+CUML(y,m)+d ; m==0 is read as 1 */
#define M1(m) ((m) == 0 ? 1 : (m))
#define PRE___ymd_fixup_d(y, m, d) (V_YEAR((int)(y)) && (m) >= 0 && (m) <= 12 && N_OK(d) && IN_RANGE(S_JAN00((int)(y)) + S_CUML((int)(y), M1(m)) + (d)))
#define POST___ymd_fixup_d(ret, y, m, d) (V_YMD(ret) && A_YMD(ret) == S_JAN00((int)(y)) + S_CUML((int)(y), M1(m)) + (d))
static dt_ymd_t __ymd_fixup_d(unsigned int y, signed int m, signed int d)
CONTRACT(PRE___ymd_fixup_d(y, m, d), POST___ymd_fixup_d(RV, y, m, d));

/* crop to ultimo (C04): day beyond the month's end becomes the month's last day */
#define PRE___ymd_fixup(d) (L_YMD(d))
#define POST___ymd_fixup(ret, d) ((ret).y == (d).y && (ret).m == (d).m && (int)(ret).d == ((int)(d).d > S_MDAYS((int)(d).y, (int)(d).m) ? S_MDAYS((int)(d).y, (int)(d).m) : (int)(d).d) && ((ret).u >> 22) == 0)
dt_ymd_t __ymd_fixup(dt_ymd_t d)
CONTRACT(PRE___ymd_fixup(d), POST___ymd_fixup(RV, d));

#define PRE___ymd_add_d(d, n) (V_YMD(d) && N_OK(n) && IN_RANGE(A_YMD(d) + (n)))
#define POST___ymd_add_d(ret, d, n) (V_YMD(ret) && A_YMD(ret) == A_YMD(d) + (n))
static dt_ymd_t __ymd_add_d(dt_ymd_t d, int n)
CONTRACT(PRE___ymd_add_d(d, n), POST___ymd_add_d(RV, d, n));

#define PRE___ymd_add_w(d, n) (V_YMD(d) && (n) >= -140000 && (n) <= 140000 && IN_RANGE(A_YMD(d) + 7 * (n)))
#define POST___ymd_add_w(ret, d, n) (V_YMD(ret) && A_YMD(ret) == A_YMD(d) + 7 * (n))
static dt_ymd_t __ymd_add_w(dt_ymd_t d, int n)
CONTRACT(PRE___ymd_add_w(d, n), POST___ymd_add_w(RV, d, n));

/* daisy */
#define PRE___daisy_add_d(d, n) (IN_RANGE((int)(d)) && N_OK(n) && IN_RANGE((int)(d) + (n)))
#define POST___daisy_add_d(ret, d, n) ((int)(ret) == (int)(d) + (n))
static dt_daisy_t __daisy_add_d(dt_daisy_t d, int n)
CONTRACT(PRE___daisy_add_d(d, n), POST___daisy_add_d(RV, d, n));
#define PRE___daisy_add_w(d, n) (IN_RANGE((int)(d)) && (n) >= -140000 && (n) <= 140000 && IN_RANGE((int)(d) + 7 * (n)))
#define POST___daisy_add_w(ret, d, n) ((int)(ret) == (int)(d) + 7 * (n))
static dt_daisy_t __daisy_add_w(dt_daisy_t d, int n)
CONTRACT(PRE___daisy_add_w(d, n), POST___daisy_add_w(RV, d, n));

/* ISO weeks carry: (y, w, d, hang) with any week count w */
#define PRE___ywd_fixup_w(y, w, d, hang) \
	(V_YEAR((int)(y)) && (w) >= -150000 && (w) <= 150000 && (d) >= 1 && (d) <= 7 && (hang) == S_HANG((int)(y)) && \
	 IN_RANGE(S_ISOMON1((int)(y)) + 7 * ((w) - 1) + ((int)(d) - 1)))
#define POST___ywd_fixup_w(ret, y, w, d, hang) \
	(V_YWD0(ret) && (ret).w == (d) && S_ISOMON1((int)(ret).y) + 7 * ((int)(ret).c - 1) == S_ISOMON1((int)(y)) + 7 * ((w) - 1))
static dt_ywd_t __ywd_fixup_w(unsigned int y, signed int w, dt_dow_t d, int hang)
CONTRACT(PRE___ywd_fixup_w(y, w, d, hang), POST___ywd_fixup_w(RV, y, w, d, hang));

/* absolute day number of an ISO week date by its week-1 Monday (lemma L_ywd: equals A_YWD) */
#define PRE___ywd_add_w(d, n) (V_YWD0(d) && (n) >= -145000 && (n) <= 145000 && IN_RANGE(N_YWD(d) + 7 * (n)))
/* (the result's day number is in 1..911280 by the precondition; V_YWD0 = ISO-valid with canonical hang) */
#define POST___ywd_add_w(ret, d, n) (V_YWD0(ret) && N_YWD(ret) == N_YWD(d) + 7 * (n))
static dt_ywd_t __ywd_add_w(dt_ywd_t d, int n)
CONTRACT(PRE___ywd_add_w(d, n), POST___ywd_add_w(RV, d, n));
#define PRE___ywd_add_d(d, n) (V_YWD0(d) && N_OK(n) && IN_RANGE(N_YWD(d) + (n)))
#define POST___ywd_add_d(ret, d, n) (V_YWD0(ret) && N_YWD(ret) == N_YWD(d) + (n))
static dt_ywd_t __ywd_add_d(dt_ywd_t d, int n)
CONTRACT(PRE___ywd_add_d(d, n), POST___ywd_add_d(RV, d, n));



#endif
