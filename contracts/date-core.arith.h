/* contracts/date-core.arith.h -- C03/C04/C05/C07/C08: arithmetic, differences, comparison
 * on the real functions of /repo/lib/date-core.c (ASPECT_ADD / ASPECT_DIFF / ASPECT_CMP parts). */
#ifndef VERIF_DATE_CORE_ARITH_H
#define VERIF_DATE_CORE_ARITH_H

/* bound on day/week counts: keeps every intermediate inside int and the result inside 1..911280 */
#define N_OK(n) ((n) >= -1000000 && (n) <= 1000000)
#define IN_RANGE(x) ((x) >= 1 && (x) <= S_MAX_DAISY)

/* ------------------------------------------------------------ C03: day carries (loop contracts in obligations/11_*.py) */
/* year-wise carry: (y, d) with any d  ->  the valid yd denoting day J(y)+d */
#define PRE___yd_fixup_d(y, d) (V_YEAR((int)(y)) && N_OK(d) && IN_RANGE(S_JAN00((int)(y)) + (d)))
#define POST___yd_fixup_d(ret, y, d) (V_YD(ret) && A_YD(ret) == S_JAN00((int)(y)) + (d))
static dt_yd_t __yd_fixup_d(unsigned int y, signed int d)
CONTRACT(PRE___yd_fixup_d(y, d), POST___yd_fixup_d(RV, y, d));

#define PRE___yd_add_d(d, n) (V_YD(d) && N_OK(n) && IN_RANGE(A_YD(d) + (n)))
#define POST___yd_add_d(ret, d, n) (V_YD(ret) && A_YD(ret) == A_YD(d) + (n))
static dt_yd_t __yd_add_d(dt_yd_t d, int n)
CONTRACT(PRE___yd_add_d(d, n), POST___yd_add_d(RV, d, n));

#define PRE___yd_add_w(d, n) (V_YD(d) && (n) >= -140000 && (n) <= 140000 && IN_RANGE(A_YD(d) + 7 * (n)))
#define POST___yd_add_w(ret, d, n) (V_YD(ret) && A_YD(ret) == A_YD(d) + 7 * (n))
static dt_yd_t __yd_add_w(dt_yd_t d, int n)
CONTRACT(PRE___yd_add_w(d, n), POST___yd_add_w(RV, d, n));

/* month-wise carry: (y, m, d) with any d -> the valid ymd denoting day J(y)+CUML(y,m)+d ; m==0 is read as 1 */
#define M1(m) ((m) == 0 ? 1 : (m))
#define PRE___ymd_fixup_d(y, m, d) (V_YEAR((int)(y)) && (m) >= 0 && (m) <= 12 && N_OK(d) && IN_RANGE(S_JAN00((int)(y)) + S_CUML((int)(y), M1(m)) + (d)))
#define POST___ymd_fixup_d(ret, y, m, d) (V_YMD(ret) && A_YMD(ret) == S_JAN00((int)(y)) + S_CUML((int)(y), M1(m)) + (d))
static dt_ymd_t __ymd_fixup_d(unsigned int y, signed int m, signed int d)
CONTRACT(PRE___ymd_fixup_d(y, m, d), POST___ymd_fixup_d(RV, y, m, d));

/* crop to ultimo (C04): day beyond the month's end becomes the month's last day */
#define PRE___ymd_fixup(d) (L_YMD(d))
#define POST___ymd_fixup(ret, d) ((ret).y == (d).y && (ret).m == (d).m && (int)(ret).d == ((int)(d).d > S_MDAYS((int)(d).y, (int)(d).m) ? S_MDAYS((int)(d).y, (int)(d).m) : (int)(d).d) && ((ret).u >> 22) == 0)
dt_ymd_t __ymd_fixup(dt_ymd_t d)
CONTRACT(PRE___ymd_fixup(d), POST___ymd_fixup(RV, d));

#define PRE___ymd_add_d(d, n) (V_YMD(d) && N_OK(n) && IN_RANGE(A_YMD(d) + (n)))
#define POST___ymd_add_d(ret, d, n) (V_YMD(ret) && A_YMD(ret) == A_YMD(d) + (n))
static dt_ymd_t __ymd_add_d(dt_ymd_t d, int n)
CONTRACT(PRE___ymd_add_d(d, n), POST___ymd_add_d(RV, d, n));

#define PRE___ymd_add_w(d, n) (V_YMD(d) && (n) >= -140000 && (n) <= 140000 && IN_RANGE(A_YMD(d) + 7 * (n)))
#define POST___ymd_add_w(ret, d, n) (V_YMD(ret) && A_YMD(ret) == A_YMD(d) + 7 * (n))
static dt_ymd_t __ymd_add_w(dt_ymd_t d, int n)
CONTRACT(PRE___ymd_add_w(d, n), POST___ymd_add_w(RV, d, n));

/* daisy */
#define PRE___daisy_add_d(d, n) (IN_RANGE((int)(d)) && N_OK(n) && IN_RANGE((int)(d) + (n)))
#define POST___daisy_add_d(ret, d, n) ((int)(ret) == (int)(d) + (n))
static dt_daisy_t __daisy_add_d(dt_daisy_t d, int n)
CONTRACT(PRE___daisy_add_d(d, n), POST___daisy_add_d(RV, d, n));
#define PRE___daisy_add_w(d, n) (IN_RANGE((int)(d)) && (n) >= -140000 && (n) <= 140000 && IN_RANGE((int)(d) + 7 * (n)))
#define POST___daisy_add_w(ret, d, n) ((int)(ret) == (int)(d) + 7 * (n))
static dt_daisy_t __daisy_add_w(dt_daisy_t d, int n)
CONTRACT(PRE___daisy_add_w(d, n), POST___daisy_add_w(RV, d, n));

/* ISO weeks carry: (y, w, d, hang) with any week count w */
#define PRE___ywd_fixup_w(y, w, d, hang) \
	(V_YEAR((int)(y)) && (w) >= -150000 && (w) <= 150000 && (d) >= 1 && (d) <= 7 && (hang) == S_HANG((int)(y)) && \
	 IN_RANGE(S_ISOMON1((int)(y)) + 7 * ((w) - 1) + ((int)(d) - 1)))
#define POST___ywd_fixup_w(ret, y, w, d, hang) \
	(V_YWD(ret) && (ret).w == (d) && S_ISOMON1((int)(ret).y) + 7 * ((int)(ret).c - 1) == S_ISOMON1((int)(y)) + 7 * ((w) - 1))
static dt_ywd_t __ywd_fixup_w(unsigned int y, signed int w, dt_dow_t d, int hang)
CONTRACT(PRE___ywd_fixup_w(y, w, d, hang), POST___ywd_fixup_w(RV, y, w, d, hang));

/* absolute day number of an ISO week date by its week-1 Monday (lemma L_ywd: equals A_YWD) */
#define N_YWD(x) (S_ISOMON1((int)(x).y) + 7 * ((int)(x).c - 1) + ((int)(x).w - 1))
#define PRE___ywd_add_w(d, n) (V_YWD(d) && (n) >= -140000 && (n) <= 140000 && IN_RANGE(N_YWD(d) + 7 * (n)))
#define POST___ywd_add_w(ret, d, n) (V_YWD(ret) && N_YWD(ret) == N_YWD(d) + 7 * (n))
static dt_ywd_t __ywd_add_w(dt_ywd_t d, int n)
CONTRACT(PRE___ywd_add_w(d, n), POST___ywd_add_w(RV, d, n));
#define PRE___ywd_add_d(d, n) (V_YWD(d) && N_OK(n) && IN_RANGE(N_YWD(d) + (n)))
#define POST___ywd_add_d(ret, d, n) (V_YWD(ret) && N_YWD(ret) == N_YWD(d) + (n))
static dt_ywd_t __ywd_add_d(dt_ywd_t d, int n)
CONTRACT(PRE___ywd_add_d(d, n), POST___ywd_add_d(RV, d, n));


/* ------------------------------------------------------------ dispatchers: dt_dadd_d / dt_dadd_w / dt_dadd (DURD, DURWK) */
/* day number in the form natural to each representation (all equal to A_d by spec lemmas L_ywd, L_monof) */
static inline int AN_d(struct dt_d_s d)
{
	switch (d.typ) {
	case DT_YMD: return A_YMD(d.ymd);
	case DT_YD: return A_YD(d.yd);
	case DT_YWD: return N_YWD(d.ywd);
	case DT_DAISY: return (int)d.daisy;
	case DT_LDN: return (int)d.ldn - S_LDN_BASE;
	case DT_MDN: return (int)d.mdn - S_MDN_BASE;
	default: return 0;
	}
}
#define ADD_T(t) ((t) == DT_YMD || (t) == DT_YD || (t) == DT_YWD || (t) == DT_DAISY || (t) == DT_LDN || (t) == DT_MDN)
#define SAME_META(r, d) ((r).typ == (d).typ && (r).param == (d).param && (r).neg == (d).neg && (r).fix == (d).fix && (r).xxx == (d).xxx)
#define PRE_dt_dadd_d(d, n) (V_d(d) && ADD_T((d).typ) && N_OK(n) && IN_RANGE(AN_d(d) + (n)))
#define POST_dt_dadd_d(ret, d, n) (SAME_META(ret, d) && V_d(ret) && AN_d(ret) == AN_d(d) + (n))
struct dt_d_s dt_dadd_d(struct dt_d_s d, int n)
CONTRACT(PRE_dt_dadd_d(d, n), POST_dt_dadd_d(RV, d, n));
#define PRE_dt_dadd_w(d, n) (V_d(d) && ADD_T((d).typ) && (n) >= -140000 && (n) <= 140000 && IN_RANGE(AN_d(d) + 7 * (n)))
#define POST_dt_dadd_w(ret, d, n) (SAME_META(ret, d) && V_d(ret) && AN_d(ret) == AN_d(d) + 7 * (n))
struct dt_d_s dt_dadd_w(struct dt_d_s d, int n)
CONTRACT(PRE_dt_dadd_w(d, n), POST_dt_dadd_w(RV, d, n));
/* dt_dadd with a day or week duration */
#define PRE_dt_dadd_dw(d, dur) (((dur).durtyp == DT_DURD && PRE_dt_dadd_d(d, (dur).dv)) || ((dur).durtyp == DT_DURWK && PRE_dt_dadd_w(d, (dur).dv)))
#define POST_dt_dadd_dw(ret, d, dur) (SAME_META(ret, d) && V_d(ret) && AN_d(ret) == AN_d(d) + ((dur).durtyp == DT_DURWK ? 7 : 1) * (dur).dv)
struct dt_d_s dt_dadd(struct dt_d_s d, struct dt_ddur_s dur)
CONTRACT(PRE_dt_dadd_dw(d, dur), POST_dt_dadd_dw(RV, d, dur));
#define PRE_dt_dadd(d, dur) PRE_dt_dadd_dw(d, dur)
#define POST_dt_dadd(ret, d, dur) POST_dt_dadd_dw(ret, d, dur)

#endif
