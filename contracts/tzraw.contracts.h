/* contracts/tzraw.contracts.h -- contracts on the real functions of /repo/lib/tzraw.c */
#ifndef VERIF_TZRAW_CONTRACTS_H
#define VERIF_TZRAW_CONTRACTS_H
#include "../spec/tz.h"
#define RV __CPROVER_return_value

#define UNREACH_CONTRACT VERIF_CONTRACT(__CPROVER_requires(0) __CPROVER_ensures(1) __CPROVER_assigns())
stamp_t UNREACH___tai_offs(stamp_t t) UNREACH_CONTRACT;
stamp_t UNREACH___gps_offs(stamp_t t) UNREACH_CONTRACT;

/* ---- leap seconds (C14): the offset for instant t per the built-in table leaps_s/leaps_corr:
 * it takes the value leaps_corr[k] from just after the k-th listed instant on, and keeps the last value forever */
#include "leaps.contracts.h"
static inline stamp_t S_corr(stamp_t t)
{
	stamp_t c = leaps_corr[0];
	for (unsigned k = 1; k < sizeof(leaps_s) / sizeof(*leaps_s); k++) {
		if (t > (stamp_t)leaps_s[k]) c = leaps_corr[k];
	}
	return c;
}
static stamp_t __tai_offs(stamp_t t)
VERIF_CONTRACT(__CPROVER_requires(1) __CPROVER_ensures(__CPROVER_return_value == S_corr(t)) __CPROVER_assigns());
static stamp_t __gps_offs(stamp_t t)
VERIF_CONTRACT(__CPROVER_requires(1) __CPROVER_ensures(__CPROVER_return_value == (t < 315964800 ? 0 : S_corr(t) - 19)) __CPROVER_assigns());
#if !defined VERIF_NATIVE
/* table lemmas: instants strictly increasing, TAI-UTC never decreases and steps by at most one second */
static void L_leaptab(void)
{
	for (unsigned k = 0; k + 1 < sizeof(leaps_s) / sizeof(*leaps_s); k++) {
		__CPROVER_assert(leaps_s[k] < leaps_s[k + 1], "L_leaptab: leap instants strictly increasing");
		__CPROVER_assert(leaps_corr[k + 1] == leaps_corr[k] || leaps_corr[k + 1] == leaps_corr[k] + 1, "L_leaptab: TAI-UTC steps by 0 or 1, never decreases");
		__CPROVER_assert(k == 0 || (stamp_t)leaps_d[k] * 86400 - 134775LL * 86400 + 86399 == (stamp_t)leaps_s[k] || k + 2 == sizeof(leaps_s) / sizeof(*leaps_s), "L_leaptab: day-count encoding agrees with the epoch encoding (23:59:59 of the leap day)");
	}
	__CPROVER_assert(sizeof(leaps_s) / sizeof(*leaps_s) == nleaps_corr && nleaps_corr == sizeof(leaps_corr) / sizeof(*leaps_corr), "L_leaptab: parallel arrays have equal length");
}
#endif

/* ---- table accessors: memory-safe under WF for every n */
static inline stamp_t zif_trans(const struct zif_s z[static 1U], int n)
VERIF_CONTRACT(__CPROVER_requires(WF_SHAPE(z)) __CPROVER_ensures(RV == TZ_TR(z, n)) __CPROVER_assigns());

static inline uint8_t _zif_type(const struct zif_s z[static 1U], int n)
VERIF_CONTRACT(__CPROVER_requires(WF_SHAPE(z)) __CPROVER_requires(WF_CONTENT(z))
	__CPROVER_ensures(((z)->ntr == 0 || n < 0) ? RV == 0 : (RV == (z)->tys[n >= (int)(z)->ntr ? (int)(z)->ntr - 1 : n] && RV < (z)->nty))
	__CPROVER_assigns());

static inline int _zif_troffs(const struct zif_s z[static 1U], int n)
VERIF_CONTRACT(__CPROVER_requires(WF_SHAPE(z)) __CPROVER_requires(WF_CONTENT(z))
	__CPROVER_ensures(RV == (z)->ofs[((z)->ntr == 0 || n < 0) ? 0 : (z)->tys[n >= (int)(z)->ntr ? (int)(z)->ntr - 1 : n]])
	__CPROVER_assigns());

/* ---- bisection: index of the last transition <= t inside the window [min, max] */
static inline int __find_trno(const struct zif_s z[static 1U], stamp_t t, int min, int max)
VERIF_CONTRACT(__CPROVER_requires(WF_SHAPE(z)) __CPROVER_requires(WF_CONTENT(z))
	__CPROVER_requires(0 <= min && (min < max || max == 0) && max <= (int)(z)->ntr && (max == (int)(z)->ntr || t < (z)->trs[max]))
	/* whole-table call, or a window call for which the window contains the answer */
	__CPROVER_ensures((max == 0 || t < TZ_TR(z, min)) ? RV == -1 :
			  (t >= TZ_TR(z, max)) ? RV == max - 1 :
			  (min <= RV && RV < max && (z)->trs[RV] <= t && t < TZ_TR(z, RV + 1)))
	__CPROVER_assigns());

/* ---- range construction around t (whole table): adjacent table entries, offset in force */
static struct zrng_s __find_zrng(const struct zif_s z[static 1U], stamp_t t, int min, int max)
VERIF_CONTRACT(__CPROVER_requires(WF_SHAPE(z)) __CPROVER_requires(WF_CONTENT(z))
	/* whole table, or a window [min,max] that contains the answer */
	__CPROVER_requires((z)->ntr >= 1 && (z)->ntr <= 255 && 0 <= min && min < max && max <= (int)(z)->ntr && (max == (int)(z)->ntr || t < (z)->trs[max]) &&
			   t >= (z)->trs[min] && t > -TZ_TMAX && t < TZ_TMAX)
	__CPROVER_ensures(TZ_IS_IDX(z, t, (int)RV.trno) && RV.prev == (z)->trs[RV.trno] &&
			  RV.next == ((int)RV.trno + 1 < (int)(z)->ntr ? (z)->trs[RV.trno + 1] : STAMP_MAX) &&
			  RV.offs == (z)->ofs[(z)->tys[RV.trno]])
	__CPROVER_assigns());

/* ---- the per-zone cache: representation invariant and the cached offset lookup (C12 + C13)
 * CacheInv: the cache is the initial zero cache, or it describes exactly one table interval. */
#define CACHE_ZERO(z) ((z)->cache.prev == 0 && (z)->cache.next == 0 && (z)->cache.offs == 0 && (z)->cache.trno == 0)
#define CACHE_IVL(z) ((size_t)(z)->cache.trno < (z)->ntr && (z)->cache.prev == (z)->trs[(z)->cache.trno] && \
	(z)->cache.next == ((size_t)(z)->cache.trno + 1 < (z)->ntr ? (z)->trs[(z)->cache.trno + 1] : STAMP_MAX) && \
	(z)->cache.offs == (z)->ofs[(z)->tys[(z)->cache.trno]])
/* an empty range (prev == next: the zero cache, or the state left by a lookup before the first transition) carries no information */
#define CACHE_EMPTY(z) ((z)->cache.prev == (z)->cache.next)
#define CACHE_INV(z) (CACHE_EMPTY(z) || CACHE_IVL(z))
/* result: the offset of the table interval that contains t -- for EVERY cache state satisfying CacheInv
 * (hence independent of earlier lookups), and CacheInv is re-established */
static stamp_t __offs(struct zif_s z[static 1U], stamp_t t)
VERIF_CONTRACT(__CPROVER_requires(WF_SHAPE(z)) __CPROVER_requires(WF_CONTENT(z))
	__CPROVER_requires((z)->ntr >= 1 && (z)->ntr <= 255 && t >= (z)->trs[0] && t > -TZ_TMAX && t < TZ_TMAX && CACHE_INV(z))
	__CPROVER_ensures(CACHE_IVL(z) && (z)->cache.prev <= t && t < (z)->cache.next && RV == (z)->cache.offs)
	__CPROVER_assigns((z)->cache));

/* UTC -> local: adds the offset in force */
stamp_t zif_local_time(zif_t z, stamp_t t)
VERIF_CONTRACT(__CPROVER_requires(WF_SHAPE(z)) __CPROVER_requires(WF_CONTENT(z))
	__CPROVER_requires((z)->ntr >= 1 && (z)->ntr <= 255 && t >= (z)->trs[0] && t > -TZ_TMAX && t < TZ_TMAX && CACHE_INV(z))
	__CPROVER_ensures(CACHE_IVL(z) && (z)->cache.prev <= t && t < (z)->cache.next && RV == t + (z)->ofs[(z)->tys[(z)->cache.trno]])
	__CPROVER_assigns((z)->cache));

/* the offset in force at instant t according to the table alone (no cache): last transition <= t wins */
static inline int S_tz_offs(const struct zif_s *z, stamp_t t)
{
	int o = z->ofs[z->tys[0]];
	for (int k = 1; k < TZ_NMAX; k++) {
		if ((size_t)k < z->ntr && z->trs[k] <= t) o = z->ofs[z->tys[k]];
	}
	return o;
}
/* local -> UTC: one refinement step of the fixed-point iteration, as a function of the TABLE only:
 * whatever was converted before on this handle (cache state), the answer is t - offs(t - offs(t)) */
stamp_t zif_utc_time(zif_t z, stamp_t t)
VERIF_CONTRACT(__CPROVER_requires(WF_SHAPE(z)) __CPROVER_requires(WF_CONTENT(z))
	__CPROVER_requires((z)->ntr >= 1 && (z)->ntr <= 255 && (z)->trs[0] > -TZ_TMAX && (z)->trs[0] < TZ_TMAX && t > (z)->trs[0] + 200000 && t > -TZ_TMAX + 200000 && t < TZ_TMAX - 200000 && CACHE_INV(z))
	__CPROVER_ensures(RV == t - S_tz_offs(z, t - S_tz_offs(z, t)) && CACHE_INV(z))
	__CPROVER_assigns((z)->cache));
#endif
