/* contracts/dt-core.contracts.h -- contracts on the real functions of /repo/lib/dt-core.c
 * (date-time sandwiches, epoch conversion, date-time addition/difference/comparison). */
#ifndef VERIF_DT_CORE_CONTRACTS_H
#define VERIF_DT_CORE_CONTRACTS_H
#include "date-core.public.h"   /* contracts of the date functions dt-core.c calls (assumed here, proved in TU date-core) */
#include "time-core.contracts.h"

/* Unix seconds of a date+time sandwich whose date part is of an addable type */
#define U_DT(x) ((long long)(AN_d((x).d) - S_UNIX_BASE) * 86400LL + (long long)SSM((x).t))
#define V_SANDWICH(x) ((x).sandwich == 1 && V_d((x).d) && ADD_T((x).d.typ) && (x).t.typ == DT_HMS && V_HMS((x).t))
#define SX_MIN ((1LL - S_UNIX_BASE) * 86400LL)
#define SX_MAX ((S_MAX_DAISY - S_UNIX_BASE + 1LL) * 86400LL - 1LL)

#ifndef UNREACH_CONTRACT
# define UNREACH_CONTRACT VERIF_CONTRACT(__CPROVER_requires(0) __CPROVER_ensures(1) __CPROVER_assigns())
#endif
struct dt_dt_s UNREACH_dt_get_base(void) UNREACH_CONTRACT;
struct dt_d_s UNREACH_dt_dadd(struct dt_d_s d, struct dt_ddur_s dur) UNREACH_CONTRACT;
zidx_t UNREACH_leaps_before_si32(const int32_t fld[], size_t nfld, int32_t key) UNREACH_CONTRACT;

#if defined VERIF_TU_DT_CORE
/* epoch seconds -> (day count, h:m:s), incl. negative epochs */
#define PRE___sexy_to_daisy(sx) ((sx) >= SX_MIN && (sx) <= SX_MAX)
#define POST___sexy_to_daisy(ret, sx) \
	((ret).sandwich == 1 && (ret).d.typ == DT_DAISY && (ret).t.typ == DT_HMS && V_HMS((ret).t) && IN_RANGE((int)(ret).d.daisy) && \
	 ((long long)(ret).d.daisy - S_UNIX_BASE) * 86400LL + SSM((ret).t) == (sx))
static inline struct dt_dt_s __sexy_to_daisy(dt_ssexy_t sx)
CONTRACT(PRE___sexy_to_daisy(sx), POST___sexy_to_daisy(RV, sx));

/* (date, time) -> epoch seconds */
#define PRE___to_unix_epoch(dt) (V_SANDWICH(dt) && DIFF_T((dt).d.typ))
#define POST___to_unix_epoch(ret, dt) ((ret) == U_DT(dt))
static inline dt_ssexy_t __to_unix_epoch(struct dt_dt_s dt)
CONTRACT(PRE___to_unix_epoch(dt), POST___to_unix_epoch(RV, dt));


/* ---- C20: fully specified input never consults the clock; with a base set, the base alone determines the fill-in */
struct dt_dt_s UNREACH_dt_datetime(dt_dttyp_t outtyp) UNREACH_CONTRACT;
#define STRPDT_EQ(a, b) \
	((a).sd.y == (b).sd.y && (a).sd.m == (b).sd.m && (a).sd.d == (b).sd.d && (a).sd.c == (b).sd.c && (a).sd.w == (b).sd.w && (a).sd.b == (b).sd.b && \
	 (a).sd.q == (b).sd.q && (a).sd.flags.u == (b).sd.flags.u && (a).st.h == (b).st.h && (a).st.m == (b).st.m && (a).st.s == (b).st.s && (a).st.ns == (b).st.ns && \
	 (a).st.flags.u == (b).st.flags.u && (a).i == (b).i && (a).zdiff == (b).zdiff && (a).zngvn == (b).zngvn)
/* a parsed value that carries a year is handed on unchanged and dt_get_base() (hence the clock) is never reached:
 * the group replaces dt_get_base by a requires(false) contract */
static struct strpdt_s massage_strpdt(struct strpdt_s d)
VERIF_CONTRACT(__CPROVER_requires(d.sd.y != 0) __CPROVER_ensures(STRPDT_EQ(__CPROVER_return_value, d)) __CPROVER_assigns());
#endif /* VERIF_TU_DT_CORE */
#if defined VERIF_TU_DT_CORE
/* once a base is set (dt_set_base, --base), dt_get_base returns exactly it, does not modify it and never calls dt_datetime()
 * (time(), gettimeofday()); `base' is havocked by the contract instrumentation, so this holds for every earlier history */
struct dt_dt_s dt_get_base(void)
VERIF_CONTRACT(__CPROVER_requires(base.typ != DT_UNK)
	__CPROVER_ensures(__CPROVER_return_value.d.u == base.d.u && __CPROVER_return_value.typ == base.typ && __CPROVER_return_value.t.hms.u == base.t.hms.u &&
		__CPROVER_return_value.sandwich == base.sandwich && base.typ != DT_UNK)
	__CPROVER_assigns());
#endif
/* adding hours / minutes / seconds to a sandwich */
#define HMS_UNIT(t) ((t) == DT_DURH ? 3600LL : (t) == DT_DURM ? 60LL : 1LL)
#define PRE_dt_dtadd_hms(d, dur) \
	(V_SANDWICH(d) && (d).typ != DT_SEXY && ((dur).durtyp == DT_DURH || (dur).durtyp == DT_DURM || (dur).durtyp == DT_DURS) && (dur).tai == 0 && \
	 (dur).dv * HMS_UNIT((dur).durtyp) >= -2147483647LL && (dur).dv * HMS_UNIT((dur).durtyp) <= 2147483647LL && \
	 U_DT(d) + (dur).dv * HMS_UNIT((dur).durtyp) >= SX_MIN && U_DT(d) + (dur).dv * HMS_UNIT((dur).durtyp) <= SX_MAX)
#define POST_dt_dtadd_hms(ret, d, dur) \
	((ret).sandwich == 1 && (ret).d.typ == (d).d.typ && V_d((ret).d) && (ret).t.typ == DT_HMS && V_HMS((ret).t) && \
	 /* carry form of U(ret) == U(d) + step: the day numbers differ by D and the times of day by step - 86400 D */ \
	 (long long)SSM((ret).t) - (long long)SSM((d).t) + 86400LL * (long long)(AN_d((ret).d) - AN_d((d).d)) == (dur).dv * HMS_UNIT((dur).durtyp))
/* time-only values (no date part): the time of day moves by the increment reduced to less than a day, the day overflow of that
 * reduced step is left in t.carry (-1, 0, 1) and the date slot is untouched */
#define T_ONLY(x) ((x).sandwich == 1 && (x).d.typ == DT_DUNK && (x).t.typ == DT_HMS && V_HMS((x).t))
#define HMS_STEP(dur) ((dur).dv * HMS_UNIT((dur).durtyp))
#define PRE_dt_dtadd_tonly(d, dur) \
	(T_ONLY(d) && ((dur).durtyp == DT_DURH || (dur).durtyp == DT_DURM || (dur).durtyp == DT_DURS) && (dur).tai == 0 && \
	 HMS_STEP(dur) >= -2147483647LL && HMS_STEP(dur) <= 2147483647LL)
#define POST_dt_dtadd_tonly(ret, d, dur) \
	(T_ONLY(ret) && (ret).d.u == (d).d.u && (ret).t.hms.ns == (d).t.hms.ns && (ret).t.carry >= -1 && (ret).t.carry <= 1 && \
	 (long long)SSM((ret).t) + 86400LL * (long long)(ret).t.carry == (long long)SSM((d).t) + HMS_STEP(dur) % 86400LL)
#define PRE_dt_dtadd(d, dur) (PRE_dt_dtadd_hms(d, dur) || PRE_dt_dtadd_tonly(d, dur))
#define POST_dt_dtadd(ret, d, dur) (T_ONLY(d) ? POST_dt_dtadd_tonly(ret, d, dur) : POST_dt_dtadd_hms(ret, d, dur))
struct dt_dt_s dt_dtadd(struct dt_dt_s d, struct dt_dtdur_s dur)
CONTRACT(PRE_dt_dtadd(d, dur), POST_dt_dtadd(RV, d, dur));

#if defined VERIF_TU_DT_CORE
/* ---------------------------------------------------------------- C14: real-seconds differences follow the leap-second table.
 * The generated table (lib/leap-seconds.def, what lib/tzraw.c compiles in) is made visible to the prover by contracts/dt-core.pre.h. */
#include "leaps.contracts.h"
#if defined VERIF_NATIVE
# define LB_N (nleaps)
#else
# define LB_N (sizeof(leaps_corr) / sizeof(*leaps_corr))
#endif
/* entry i lies strictly before the instant (K, H): earlier day, or the same day and (for date-times) an earlier time of day */
#define LBC(tab, K, S, H, i) ((i) < LB_N && ((tab)[i] < (K) || ((tab)[i] == (K) && (S) && leaps_hms[i] < (H))))
/* index of the last table entry strictly before the instant, 0 when there is none (tables are strictly increasing: L_leaptab) */
#define S_LB(tab, K, S, H) (LBC(tab, K, S, H, 47) ? 47 : LBC(tab, K, S, H, 46) ? 46 : LBC(tab, K, S, H, 45) ? 45 : LBC(tab, K, S, H, 44) ? 44 : LBC(tab, K, S, H, 43) ? 43 : LBC(tab, K, S, H, 42) ? 42 : LBC(tab, K, S, H, 41) ? 41 : LBC(tab, K, S, H, 40) ? 40 : LBC(tab, K, S, H, 39) ? 39 : LBC(tab, K, S, H, 38) ? 38 : LBC(tab, K, S, H, 37) ? 37 : LBC(tab, K, S, H, 36) ? 36 : LBC(tab, K, S, H, 35) ? 35 : LBC(tab, K, S, H, 34) ? 34 : LBC(tab, K, S, H, 33) ? 33 : LBC(tab, K, S, H, 32) ? 32 : LBC(tab, K, S, H, 31) ? 31 : LBC(tab, K, S, H, 30) ? 30 : LBC(tab, K, S, H, 29) ? 29 : LBC(tab, K, S, H, 28) ? 28 : LBC(tab, K, S, H, 27) ? 27 : LBC(tab, K, S, H, 26) ? 26 : LBC(tab, K, S, H, 25) ? 25 : LBC(tab, K, S, H, 24) ? 24 : LBC(tab, K, S, H, 23) ? 23 : LBC(tab, K, S, H, 22) ? 22 : LBC(tab, K, S, H, 21) ? 21 : LBC(tab, K, S, H, 20) ? 20 : LBC(tab, K, S, H, 19) ? 19 : LBC(tab, K, S, H, 18) ? 18 : LBC(tab, K, S, H, 17) ? 17 : LBC(tab, K, S, H, 16) ? 16 : LBC(tab, K, S, H, 15) ? 15 : LBC(tab, K, S, H, 14) ? 14 : LBC(tab, K, S, H, 13) ? 13 : LBC(tab, K, S, H, 12) ? 12 : LBC(tab, K, S, H, 11) ? 11 : LBC(tab, K, S, H, 10) ? 10 : LBC(tab, K, S, H, 9) ? 9 : LBC(tab, K, S, H, 8) ? 8 : LBC(tab, K, S, H, 7) ? 7 : LBC(tab, K, S, H, 6) ? 6 : LBC(tab, K, S, H, 5) ? 5 : LBC(tab, K, S, H, 4) ? 4 : LBC(tab, K, S, H, 3) ? 3 : LBC(tab, K, S, H, 2) ? 2 : LBC(tab, K, S, H, 1) ? 1 : 0)
#define LB_T(X_) ((X_).typ == DT_YMD || (X_).typ == DT_DAISY)
#define S_LB_DT(X_) ((X_).typ == DT_YMD ? S_LB(leaps_ymd, (X_).d.ymd.u, (X_).sandwich, (X_).t.hms.u24) : S_LB(leaps_d, (X_).d.daisy, (X_).sandwich, (X_).t.hms.u24))
static zidx_t leaps_before(struct dt_dt_s d)
VERIF_CONTRACT(__CPROVER_requires(LB_T(d) && LB_N <= 48) __CPROVER_ensures(RV == S_LB_DT(d) && RV < LB_N) __CPROVER_assigns());
#endif
/* difference in real (SI) seconds, requested as target type 0xff by ddiff: the UTC difference goes to .soft, the number of leap
 * seconds between the two instants (TAI-UTC at d2 minus TAI-UTC at d1, so it changes sign with the operands) goes to .corr */
#define DT_DURTAI ((dt_dtdurtyp_t)0xffU)
/* U(d2) - U(d1) in carry form: difference of the times of day plus 86400 per day of difference */
#define U_DIFF(d1, d2) ((long long)(SSM((d2).t) - SSM((d1).t)) + 86400LL * (long long)(AN_d((d2).d) - AN_d((d1).d)))
#define PRE_dt_dtdiff_tai(tgt, d1, d2) ((tgt) == DT_DURTAI && V_SANDWICH(d1) && V_SANDWICH(d2) && LB_T(d1) && (d1).typ == (d2).typ && \
	U_DIFF(d1, d2) >= -2147483647LL && U_DIFF(d1, d2) <= 2147483647LL)
#define POST_dt_dtdiff_tai(ret, tgt, d1, d2) ((ret).durtyp == DT_DURS && (ret).neg == 0 && (ret).tai == 1 && (long long)(ret).soft == U_DIFF(d1, d2) && \
	(int)(ret).corr == leaps_corr[S_LB_DT(d2)] - leaps_corr[S_LB_DT(d1)])
/* difference of two sandwiches in seconds */
#define PRE_dt_dtdiff_s(tgt, d1, d2) ((tgt) == DT_DURS && V_SANDWICH(d1) && V_SANDWICH(d2) && DIFF_T((d1).d.typ) && DIFF_T((d2).d.typ))
#define POST_dt_dtdiff_s(ret, tgt, d1, d2) ((ret).durtyp == DT_DURS && (ret).neg == 0 && (ret).tai == 0 && (long long)(ret).dv == U_DIFF(d1, d2))   /* == U(d2) - U(d1), in carry form */
#if defined VERIF_TU_DT_CORE
#define PRE_dt_dtdiff(tgt, d1, d2) (PRE_dt_dtdiff_s(tgt, d1, d2) || PRE_dt_dtdiff_tai(tgt, d1, d2))
#define POST_dt_dtdiff(ret, tgt, d1, d2) ((tgt) == DT_DURTAI ? POST_dt_dtdiff_tai(ret, tgt, d1, d2) : POST_dt_dtdiff_s(ret, tgt, d1, d2))
#else
#define PRE_dt_dtdiff(tgt, d1, d2) PRE_dt_dtdiff_s(tgt, d1, d2)
#define POST_dt_dtdiff(ret, tgt, d1, d2) POST_dt_dtdiff_s(ret, tgt, d1, d2)
#endif
struct dt_dtdur_s dt_dtdiff(dt_dtdurtyp_t tgttyp, struct dt_dt_s d1, struct dt_dt_s d2)
CONTRACT(PRE_dt_dtdiff(tgttyp, d1, d2), POST_dt_dtdiff(RV, tgttyp, d1, d2));

/* date-time comparison: chronological order of same-typed sandwiches = lexicographic (day, time of day);
 * the day order is the one dt_dcmp / __ymcw_cmp are proved to compute */
#define CMPS_T(t) (CMP_T(t) || (t) == DT_YMCW)
#define DAYCMP(a, b) ((a).typ == DT_YMCW ? (GY_d(a) != GY_d(b) ? DCMP3(GY_d(a), GY_d(b)) : DCMP3(GYD_d(a), GYD_d(b))) : DCMP3(DKEY(a), DKEY(b)))
#define V_TPART(x) ((x).t.typ == DT_HMS && V_HMS24((x).t) && ((x).t.hms.u >> 56) == 0)
#define PRE_dt_dtcmp(d1, d2) ((d1).sandwich == 1 && (d2).sandwich == 1 && (d1).d.typ == (d2).d.typ && (d1).typ == (d2).typ && CMPS_T((d1).d.typ) && \
	V_d((d1).d) && V_d((d2).d) && V_TPART(d1) && V_TPART(d2))
#define POST_dt_dtcmp(ret, d1, d2) ((ret) == (DAYCMP((d1).d, (d2).d) != 0 ? DAYCMP((d1).d, (d2).d) : DCMP3(TKEY((d1).t), TKEY((d2).t))))
int dt_dtcmp(struct dt_dt_s d1, struct dt_dt_s d2)
CONTRACT(PRE_dt_dtcmp(d1, d2), POST_dt_dtcmp(RV, d1, d2));
/* range test through the 4x4 table: 1 iff d1 <= d <= d2 in the order dt_dtcmp is proved to compute, else 0
 * (under PRE_dt_dtcmp the comparison never answers -2, so the "not comparable" row/column of the table is not entered) */
#define S_DTCMP(a, b) (DAYCMP((a).d, (b).d) != 0 ? DAYCMP((a).d, (b).d) : DCMP3(TKEY((a).t), TKEY((b).t)))
#define PRE_dt_dt_in_range_p(d, d1, d2) (PRE_dt_dtcmp(d, d1) && PRE_dt_dtcmp(d, d2))
#define POST_dt_dt_in_range_p(ret, d, d1, d2) ((ret) == ((S_DTCMP(d, d1) >= 0 && S_DTCMP(d, d2) <= 0) ? 1 : 0))
int dt_dt_in_range_p(struct dt_dt_s d, struct dt_dt_s d1, struct dt_dt_s d2)
CONTRACT(PRE_dt_dt_in_range_p(d, d1, d2), POST_dt_dt_in_range_p(RV, d, d1, d2));
#endif
