/* contracts/dt-core.contracts.h -- contracts on the real functions of /repo/lib/dt-core.c
 * (date-time sandwiches, epoch conversion, date-time addition/difference/comparison). */
#ifndef VERIF_DT_CORE_CONTRACTS_H
#define VERIF_DT_CORE_CONTRACTS_H
#include "date-core.public.h"   /* contracts of the date functions dt-core.c calls (assumed here, proved in TU date-core) */
#include "time-core.contracts.h"

/* Unix seconds of a date+time sandwich whose date part is of an addable type */
#define U_DT(x) ((long long)(AN_d((x).d) - S_UNIX_BASE) * 86400LL + (long long)SSM((x).t))
#define V_SANDWICH(x) ((x).sandwich == 1 && V_d((x).d) && ADD_T((x).d.typ) && (x).t.typ == DT_HMS && V_HMS((x).t))
#define SX_MIN ((1LL - S_UNIX_BASE) * 86400LL)
#define SX_MAX ((S_MAX_DAISY - S_UNIX_BASE + 1LL) * 86400LL - 1LL)

#ifndef UNREACH_CONTRACT
# define UNREACH_CONTRACT VERIF_CONTRACT(__CPROVER_requires(0) __CPROVER_ensures(1) __CPROVER_assigns())
#endif
struct dt_dt_s UNREACH_dt_get_base(void) UNREACH_CONTRACT;
struct dt_d_s UNREACH_dt_dadd(struct dt_d_s d, struct dt_ddur_s dur) UNREACH_CONTRACT;

#if defined VERIF_TU_DT_CORE
/* epoch seconds -> (day count, h:m:s), incl. negative epochs */
#define PRE___sexy_to_daisy(sx) ((sx) >= SX_MIN && (sx) <= SX_MAX)
#define POST___sexy_to_daisy(ret, sx) \
	((ret).sandwich == 1 && (ret).d.typ == DT_DAISY && (ret).t.typ == DT_HMS && V_HMS((ret).t) && IN_RANGE((int)(ret).d.daisy) && \
	 ((long long)(ret).d.daisy - S_UNIX_BASE) * 86400LL + SSM((ret).t) == (sx))
static inline struct dt_dt_s __sexy_to_daisy(dt_ssexy_t sx)
CONTRACT(PRE___sexy_to_daisy(sx), POST___sexy_to_daisy(RV, sx));

/* (date, time) -> epoch seconds */
#define PRE___to_unix_epoch(dt) (V_SANDWICH(dt) && DIFF_T((dt).d.typ))
#define POST___to_unix_epoch(ret, dt) ((ret) == U_DT(dt))
static inline dt_ssexy_t __to_unix_epoch(struct dt_dt_s dt)
CONTRACT(PRE___to_unix_epoch(dt), POST___to_unix_epoch(RV, dt));


/* ---- C20: fully specified input never consults the clock; with a base set, the base alone determines the fill-in */
struct dt_dt_s UNREACH_dt_datetime(dt_dttyp_t outtyp) UNREACH_CONTRACT;
#define STRPDT_EQ(a, b) \
	((a).sd.y == (b).sd.y && (a).sd.m == (b).sd.m && (a).sd.d == (b).sd.d && (a).sd.c == (b).sd.c && (a).sd.w == (b).sd.w && (a).sd.b == (b).sd.b && \
	 (a).sd.q == (b).sd.q && (a).sd.flags.u == (b).sd.flags.u && (a).st.h == (b).st.h && (a).st.m == (b).st.m && (a).st.s == (b).st.s && (a).st.ns == (b).st.ns && \
	 (a).st.flags.u == (b).st.flags.u && (a).i == (b).i && (a).zdiff == (b).zdiff && (a).zngvn == (b).zngvn)
/* a parsed value that carries a year is handed on unchanged and dt_get_base() (hence the clock) is never reached:
 * the group replaces dt_get_base by a requires(false) contract */
static struct strpdt_s massage_strpdt(struct strpdt_s d)
VERIF_CONTRACT(__CPROVER_requires(d.sd.y != 0) __CPROVER_ensures(STRPDT_EQ(__CPROVER_return_value, d)) __CPROVER_assigns());
#endif /* VERIF_TU_DT_CORE */
#if defined VERIF_TU_DT_CORE
/* once a base is set (dt_set_base, --base), dt_get_base returns exactly it, does not modify it and never calls dt_datetime()
 * (time(), gettimeofday()); `base' is havocked by the contract instrumentation, so this holds for every earlier history */
struct dt_dt_s dt_get_base(void)
VERIF_CONTRACT(__CPROVER_requires(base.typ != DT_UNK)
	__CPROVER_ensures(__CPROVER_return_value.d.u == base.d.u && __CPROVER_return_value.typ == base.typ && __CPROVER_return_value.t.hms.u == base.t.hms.u &&
		__CPROVER_return_value.sandwich == base.sandwich && base.typ != DT_UNK)
	__CPROVER_assigns());
#endif
/* adding hours / minutes / seconds to a sandwich */
#define HMS_UNIT(t) ((t) == DT_DURH ? 3600LL : (t) == DT_DURM ? 60LL : 1LL)
#define PRE_dt_dtadd_hms(d, dur) \
	(V_SANDWICH(d) && (d).typ != DT_SEXY && ((dur).durtyp == DT_DURH || (dur).durtyp == DT_DURM || (dur).durtyp == DT_DURS) && (dur).tai == 0 && \
	 (dur).dv * HMS_UNIT((dur).durtyp) >= -2147483647LL && (dur).dv * HMS_UNIT((dur).durtyp) <= 2147483647LL && \
	 U_DT(d) + (dur).dv * HMS_UNIT((dur).durtyp) >= SX_MIN && U_DT(d) + (dur).dv * HMS_UNIT((dur).durtyp) <= SX_MAX)
#define POST_dt_dtadd_hms(ret, d, dur) \
	((ret).sandwich == 1 && (ret).d.typ == (d).d.typ && V_d((ret).d) && (ret).t.typ == DT_HMS && V_HMS((ret).t) && \
	 U_DT(ret) == U_DT(d) + (dur).dv * HMS_UNIT((dur).durtyp))
/* time-only values (no date part): the time of day moves by the increment reduced to less than a day, the day overflow of that
 * reduced step is left in t.carry (-1, 0, 1) and the date slot is untouched */
#define T_ONLY(x) ((x).sandwich == 1 && (x).d.typ == DT_DUNK && (x).t.typ == DT_HMS && V_HMS((x).t))
#define HMS_STEP(dur) ((dur).dv * HMS_UNIT((dur).durtyp))
#define PRE_dt_dtadd_tonly(d, dur) \
	(T_ONLY(d) && ((dur).durtyp == DT_DURH || (dur).durtyp == DT_DURM || (dur).durtyp == DT_DURS) && (dur).tai == 0 && \
	 HMS_STEP(dur) >= -2147483647LL && HMS_STEP(dur) <= 2147483647LL)
#define POST_dt_dtadd_tonly(ret, d, dur) \
	(T_ONLY(ret) && (ret).d.u == (d).d.u && (ret).t.hms.ns == (d).t.hms.ns && (ret).t.carry >= -1 && (ret).t.carry <= 1 && \
	 (long long)SSM((ret).t) + 86400LL * (long long)(ret).t.carry == (long long)SSM((d).t) + HMS_STEP(dur) % 86400LL)
#define PRE_dt_dtadd(d, dur) (PRE_dt_dtadd_hms(d, dur) || PRE_dt_dtadd_tonly(d, dur))
#define POST_dt_dtadd(ret, d, dur) (T_ONLY(d) ? POST_dt_dtadd_tonly(ret, d, dur) : POST_dt_dtadd_hms(ret, d, dur))
struct dt_dt_s dt_dtadd(struct dt_dt_s d, struct dt_dtdur_s dur)
CONTRACT(PRE_dt_dtadd(d, dur), POST_dt_dtadd(RV, d, dur));

/* difference of two sandwiches in seconds */
#define PRE_dt_dtdiff_s(tgt, d1, d2) ((tgt) == DT_DURS && V_SANDWICH(d1) && V_SANDWICH(d2) && DIFF_T((d1).d.typ) && DIFF_T((d2).d.typ))
#define POST_dt_dtdiff_s(ret, tgt, d1, d2) ((ret).durtyp == DT_DURS && (ret).neg == 0 && (ret).tai == 0 && (long long)(ret).dv == U_DT(d2) - U_DT(d1))
struct dt_dtdur_s dt_dtdiff(dt_dtdurtyp_t tgttyp, struct dt_dt_s d1, struct dt_dt_s d2)
CONTRACT(PRE_dt_dtdiff_s(tgttyp, d1, d2), POST_dt_dtdiff_s(RV, tgttyp, d1, d2));
#define PRE_dt_dtdiff(tgt, d1, d2) PRE_dt_dtdiff_s(tgt, d1, d2)
#define POST_dt_dtdiff(ret, tgt, d1, d2) POST_dt_dtdiff_s(ret, tgt, d1, d2)

/* date-time comparison: chronological order of same-typed sandwiches */
#define DTKEY(x) ((long long)AN_d((x).d) * 86400LL + (long long)SSM((x).t))
#define PRE_dt_dtcmp(d1, d2) (V_SANDWICH(d1) && V_SANDWICH(d2) && (d1).d.typ == (d2).d.typ && (d1).typ == (d2).typ && \
	(d1).t.hms.ns == 0 && (d2).t.hms.ns == 0 && ((d1).t.hms.u >> 56) == 0 && ((d2).t.hms.u >> 56) == 0)
#define POST_dt_dtcmp(ret, d1, d2) ((ret) == (DTKEY(d1) < DTKEY(d2) ? -1 : DTKEY(d1) > DTKEY(d2) ? 1 : 0))
int dt_dtcmp(struct dt_dt_s d1, struct dt_dt_s d2)
CONTRACT(PRE_dt_dtcmp(d1, d2), POST_dt_dtcmp(RV, d1, d2));
#endif
