/* contracts/prchunk.harness.h -- C18 bounded stand-in for the chunking reader src/prchunk.c.
 * The real prchunk_fill / prchunk_haslinep / prchunk_getline run on a SHRUNK window (guarded size hooks in src/prchunk.c:
 * MAX_NLINES=3, MAX_LLEN=4, CHUNK_SIZE=3, i.e. a 12-byte window) against a ghost byte stream of at most PRCH_STREAM_MAX bytes
 * that read() delivers in NON-DETERMINISTIC pieces (every cut, including 0-byte results meaning end of input).
 * Checked: every access stays inside the window, and the lines handed out, each followed by a newline, reproduce the ghost stream
 * (no line lost, duplicated, split or merged). */
#ifndef VERIF_PRCHUNK_HARNESS_H
#define VERIF_PRCHUNK_HARNESS_H
#if !defined VERIF_NATIVE
#ifndef PRCH_STREAM_MAX
# define PRCH_STREAM_MAX 6
#endif
static char ghost[PRCH_STREAM_MAX];
static size_t ghost_len, ghost_pos;
ssize_t verif_read(int fd, void *buf, size_t n)
{
	size_t k;
	/* any cut: 1..n bytes while data is left, 0 at end of input */
	__CPROVER_assume(k <= n && k <= ghost_len - ghost_pos && (k > 0 || ghost_pos == ghost_len));
	for (size_t i = 0; i < PRCH_STREAM_MAX; i++) {
		if (i < k) ((char *)buf)[i] = ghost[ghost_pos + i];
	}
	ghost_pos += k;
	return (ssize_t)k;
}
void *verif_mmap(size_t len)
{
	void *p = calloc(len, 1);
	__CPROVER_assume(p != NULL);
	return p;
}
static void h_prchunk_body(void)
{
	char out[2 * PRCH_STREAM_MAX + 4];
	size_t nout = 0;
	__CPROVER_assume(ghost_len <= PRCH_STREAM_MAX);
	/* stated restriction: text lines (no NUL, no CR), each shorter than the line limit, and a final newline */
	for (size_t i = 0; i < PRCH_STREAM_MAX; i++) {
		if (i < ghost_len) __CPROVER_assume(ghost[i] != '\0' && ghost[i] != '\r');
	}
	__CPROVER_assume(ghost_len == 0 || ghost[ghost_len - 1] == '\n');
	ghost_pos = 0;
	prch_ctx_t ctx = init_prchunk(0);
	__CPROVER_assume(ctx != NULL);
	for (int round = 0; round < PRCH_STREAM_MAX + 2; round++) {
		if (prchunk_fill(ctx) < 0) break;
		for (int k = 0; k < MAX_NLINES + 1 && prchunk_haslinep(ctx); k++) {
			char *line;
			size_t llen = prchunk_getline(ctx, &line);
			__CPROVER_assert(line != NULL, "LINES: a line is handed out whenever haslinep says so");
			for (size_t i = 0; i < PRCH_STREAM_MAX; i++) {
				if (i < llen && nout < sizeof(out)) out[nout++] = line[i];
			}
			if (nout < sizeof(out)) out[nout++] = '\n';
		}
	}
	__CPROVER_assert(nout == ghost_len, "LINES: as many bytes come out as went in");
	for (size_t i = 0; i < PRCH_STREAM_MAX; i++) {
		if (i < ghost_len && i < nout) __CPROVER_assert(out[i] == ghost[i], "LINES: the lines handed out reproduce the stream byte for byte");
	}
}
#endif
#endif
