/* contracts/time-core.contracts.h -- contracts on the real functions of /repo/lib/time-core.c */
#ifndef VERIF_TIME_CORE_CONTRACTS_H
#define VERIF_TIME_CORE_CONTRACTS_H
#ifndef RV
# define RV __CPROVER_return_value
# define CONTRACT(pre, post) VERIF_CONTRACT(__CPROVER_requires(pre) __CPROVER_ensures(post) __CPROVER_assigns())
#endif

/* seconds since midnight of a time-of-day value; 24:00:00 is allowed on input ("military midnight") */
#define SSM(t) (((int)(t).hms.h * 60 + (int)(t).hms.m) * 60 + (int)(t).hms.s)
#define V_HMS(t) ((t).hms.h < 24 && (t).hms.m < 60 && (t).hms.s < 60)
#define V_HMS24(t) (V_HMS(t) || ((t).hms.h == 24 && (t).hms.m == 0 && (t).hms.s == 0))

#if defined VERIF_TU_TIME_CORE
/* floor division (static in time-core.c) */
#define PRE_divrem(n, mod) ((mod) >= 86399u && (mod) <= 86401u && (n) >= -800000 && (n) <= 800000)
#define POST_divrem(ret, n, mod) \
	((ret).rem < (mod) && (long long)(ret).div * (long long)(mod) + (long long)(ret).rem == (long long)(n))
static struct divrem_s divrem(signed int n, unsigned int mod)
CONTRACT(PRE_divrem(n, mod), POST_divrem(RV, n, mod));

#endif
/* add DURS seconds to a time of day; the day overflow goes to the 4-bit signed carry slot */
#define PRE_dt_tadd_s(t, durs, corr) (V_HMS24(t) && (corr) == 0 && (durs) >= -7 * 86400 && (durs) <= 6 * 86400)
#define POST_dt_tadd_s(ret, t, durs, corr) \
	(V_HMS(ret) && (ret).typ == DT_HMS && (ret).neg == 0 && (ret).hms.ns == (t).hms.ns && (ret).carry >= -8 && (ret).carry <= 7 && \
	 SSM(ret) + 86400 * (int)(ret).carry == SSM(t) + (durs))
struct dt_t_s dt_tadd_s(struct dt_t_s t, int durs, int corr)
CONTRACT(PRE_dt_tadd_s(t, durs, corr), POST_dt_tadd_s(RV, t, durs, corr));

#define PRE_dt_tdiff_s(t1, t2) (V_HMS24(t1) && V_HMS24(t2))
#define POST_dt_tdiff_s(ret, t1, t2) ((ret) == SSM(t2) - SSM(t1))
int dt_tdiff_s(struct dt_t_s t1, struct dt_t_s t2)
CONTRACT(PRE_dt_tdiff_s(t1, t2), POST_dt_tdiff_s(RV, t1, t2));

#define PRE_dt_tdiff_ns(t1, t2) (V_HMS24(t1) && V_HMS24(t2) && (t1).hms.ns < 1000000000u && (t2).hms.ns < 1000000000u)
#define POST_dt_tdiff_ns(ret, t1, t2) ((ret) == (long long)(SSM(t2) - SSM(t1)) * 1000000000LL + ((long long)(t2).hms.ns - (long long)(t1).hms.ns))
int64_t dt_tdiff_ns(struct dt_t_s t1, struct dt_t_s t2)
CONTRACT(PRE_dt_tdiff_ns(t1, t2), POST_dt_tdiff_ns(RV, t1, t2));

/* chronological order of times of day: by (seconds since midnight, nanoseconds) */
#define TKEY(t) ((long long)SSM(t) * 4294967296LL + (long long)(t).hms.ns)
#define PRE_dt_tcmp(t1, t2) (V_HMS24(t1) && V_HMS24(t2) && ((t1).u >> 56) == 0 && ((t2).u >> 56) == 0)
#define POST_dt_tcmp(ret, t1, t2) ((ret) == (TKEY(t1) < TKEY(t2) ? -1 : TKEY(t1) > TKEY(t2) ? 1 : 0))
int dt_tcmp(struct dt_t_s t1, struct dt_t_s t2)
CONTRACT(PRE_dt_tcmp(t1, t2), POST_dt_tcmp(RV, t1, t2));

#if defined VERIF_TU_TIME_CORE && !defined VERIF_NATIVE
/* C09: the 12-hour clock round-trips.  For every hour 0..23 and both letter cases: what the real printer emits for %I and for
 * %p / %P, read back by the real AM/PM parser and assembled by the real __guess_ttyp(), is the hour we started from.  The digits
 * of %I are bridged by the number round trip proved in lib/strops.c (L_rt_num: strtoi_lim inverts ui99topstr); here they
 * are decoded by hand and checked to be in the range 1..12 that the parser accepts. */
static void L_rt_ampm(unsigned h, unsigned cap)
{
	__CPROVER_assume(h < 24 && cap <= 1);
	struct dt_t_s t = {DT_HMS};
	struct strpt_s d = {0};
	struct dt_spec_s sI = {0}, sp = {0};
	char bI[4] = {0, 0, 0, 0}, bp[4] = {0, 0, 0, 0};
	d.h = (int)h;
	sI.spfl = DT_SPFL_N_HOUR; sI.sc12 = 1;
	sp.spfl = DT_SPFL_S_AMPM; sp.cap = cap;
	size_t nI = __strft_card(bI, 3, sI, &d, t);
	size_t np = __strft_card(bp, 3, sp, &d, t);
	__CPROVER_assert(nI == 2 && bI[0] >= '0' && bI[0] <= '9' && bI[1] >= '0' && bI[1] <= '9', "L_rt_ampm: %I prints two digits");
	int v = (bI[0] - '0') * 10 + (bI[1] - '0');
	__CPROVER_assert(v >= 1 && v <= 12, "L_rt_ampm: %I prints 01..12");
	__CPROVER_assert(np == 2, "L_rt_ampm: %p prints two letters");
	struct strpt_s q = {0};
	char *ep = NULL;
	q.h = v; q.flags.h_set = 1;
	int rc = __strpt_card(&q, bp, sp, &ep);
	__CPROVER_assert(rc >= 0 && ep == bp + 2, "L_rt_ampm: the AM/PM parser accepts what the printer wrote and consumes it");
	struct dt_t_s r = __guess_ttyp(q);
	__CPROVER_assert(r.typ == DT_HMS && r.hms.h == h, "L_rt_ampm: 12-hour clock + AM/PM read back gives the original hour");
}
#endif
#endif
