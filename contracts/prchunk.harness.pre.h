/* environment stubs for the prchunk harness (see prchunk.harness.h) */
#include <stddef.h>
#include <sys/types.h>
#include <sys/mman.h>
#include <unistd.h>
#include <stdlib.h>
#include <fcntl.h>
ssize_t verif_read(int fd, void *buf, size_t n);
void *verif_mmap(size_t len);
