/* contracts/dseq.contracts.h -- src/dseq.c (C15): the step functions of dateseq */
#ifndef VERIF_DSEQ_CONTRACTS_H
#define VERIF_DSEQ_CONTRACTS_H
#include "dt-core.contracts.h"
#define DSEQ_NDUR_MAX 2
/* total step of an increment stack (hours/minutes/seconds components), each component shorter than a day */
static inline long long S_stack_step(const struct dt_dtdur_s *dur, size_t ndur)
{
	long long tot = 0;
	for (size_t i = 0; i < DSEQ_NDUR_MAX; i++) {
		if (i < ndur) tot += HMS_STEP(dur[i]);
	}
	return tot;
}
/* time-only sequences: after adding the whole increment stack the time of day has moved by the total step and the number of
 * midnights crossed on the way has been ACCUMULATED over all components into the (otherwise unused) date slot d.d.u --
 * that count is what __in_range_p uses to know that a wrap-around run has passed LAST */
static struct dt_dt_s date_add(struct dt_dt_s d, struct dt_dtdur_s dur[], size_t ndur)
VERIF_CONTRACT(__CPROVER_requires(ndur >= 1 && ndur <= DSEQ_NDUR_MAX && __CPROVER_is_fresh(dur, DSEQ_NDUR_MAX * sizeof(struct dt_dtdur_s)))
	__CPROVER_requires(T_ONLY(d) && d.d.u < 1000 &&
		(ndur < 1 || (PRE_dt_dtadd_tonly(d, dur[0]) && HMS_STEP(dur[0]) > -86400 && HMS_STEP(dur[0]) < 86400)) &&
		(ndur < 2 || (PRE_dt_dtadd_tonly(d, dur[1]) && HMS_STEP(dur[1]) > -86400 && HMS_STEP(dur[1]) < 86400)))
	__CPROVER_ensures(T_ONLY(__CPROVER_return_value) &&
		(long long)SSM(__CPROVER_return_value.t) + 86400LL * (long long)((int)__CPROVER_return_value.d.u - (int)d.d.u) == (long long)SSM(d.t) + S_stack_step(dur, ndur))
	__CPROVER_assigns());
#endif
