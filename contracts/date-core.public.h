/* contracts/date-core.public.h -- contracts of the EXTERN functions of /repo/lib/date-core.c.
 * Included by the date-core harness TU (where they are enforced) and by the harness TUs of the
 * callers in other translation units (lib/dt-core.c, src/*.c) where they are assumed: one text, so what
 * a caller assumes is exactly what the callee's group proves. */
#ifndef VERIF_DATE_CORE_PUBLIC_H
#define VERIF_DATE_CORE_PUBLIC_H
#include "../spec/abs.h"
#ifndef RV
# define RV __CPROVER_return_value
# define CONTRACT(pre, post) VERIF_CONTRACT(__CPROVER_requires(pre) __CPROVER_ensures(post) __CPROVER_assigns())
#endif
/* bound on day/week counts: keeps every intermediate inside int and the result inside 1..911280 */
#define N_OK(n) ((n) >= -1000000 && (n) <= 1000000)
#define IN_RANGE(x) ((x) >= 1 && (x) <= S_MAX_DAISY)
/* absolute day number of an ISO week date by its week-1 Monday (lemma L_ywd: equals A_YWD) */
#define N_YWD(x) (S_ISOMON1((int)(x).y) + 7 * ((int)(x).c - 1) + ((int)(x).w - 1))

/* C04: crop to the last existing day / count / week ("lazy ultimo").  Lazily valid values: month/year arithmetic may leave a
 * day-of-month up to 31, a 5th weekday, week 53 or day 366 that does not exist in the target month/year. */
#define L_YMCW(x) (V_YEAR((int)(x).y) && (x).m >= 1 && (x).m <= 12 && (x).c >= 1 && (x).c <= 5 && (x).w >= 1 && (x).w <= 7 && ((x).u >> 22) == 0)
#define L_YWD(x) (V_YEAR((int)(x).y) && (x).c >= 1 && (x).c <= 53 && (x).w >= 1 && (x).w <= 7 && (int)(x).hang == S_HANG((int)(x).y) && ((x).u >> 25) == 0)
#define L_YD(x) (V_YEAR((int)(x).y) && (x).d >= 1 && (x).d <= 366)
#define LV_d(d) (V_d(d) || ((d).typ == DT_YMD && L_YMD((d).ymd)) || ((d).typ == DT_YMCW && L_YMCW((d).ymcw)) || ((d).typ == DT_YWD && L_YWD((d).ywd)) || ((d).typ == DT_YD && L_YD((d).yd)))
#define IMIN(a, b) ((a) < (b) ? (a) : (b))
#define PRE_dt_dfixup(d) (LV_d(d))
#define POST_dt_dfixup_valid(ret, d) (!V_d(d) || ((ret).u == (d).u && (ret).typ == (d).typ && (ret).param == (d).param && (ret).fix == (d).fix && (ret).neg == (d).neg))
#define POST_dt_dfixup_crop(ret, d) \
	((ret).typ == (d).typ && (ret).param == (d).param && \
	 ((d).typ == DT_YMD ? ((ret).ymd.y == (d).ymd.y && (ret).ymd.m == (d).ymd.m && (int)(ret).ymd.d == IMIN((int)(d).ymd.d, S_MDAYS((int)(d).ymd.y, (int)(d).ymd.m))) : \
	  (d).typ == DT_YMCW ? ((ret).ymcw.y == (d).ymcw.y && (ret).ymcw.m == (d).ymcw.m && (ret).ymcw.w == (d).ymcw.w && (int)(ret).ymcw.c == IMIN((int)(d).ymcw.c, S_mcnt((int)(d).ymcw.y, (int)(d).ymcw.m, (int)(d).ymcw.w))) : \
	  (d).typ == DT_YWD ? ((ret).ywd.y == (d).ywd.y && (ret).ywd.w == (d).ywd.w && (ret).ywd.hang == (d).ywd.hang && (int)(ret).ywd.c == IMIN((int)(d).ywd.c, S_ISOWEEKS((int)(d).ywd.y))) : \
	  (d).typ == DT_YD ? ((ret).yd.y == (d).yd.y && (int)(ret).yd.d == IMIN((int)(d).yd.d, S_YDAYS((int)(d).yd.y))) : (ret).u == (d).u))
struct dt_d_s dt_dfixup(struct dt_d_s d)
VERIF_CONTRACT(__CPROVER_requires(PRE_dt_dfixup(d)) __CPROVER_ensures(POST_dt_dfixup_valid(RV, d)) __CPROVER_ensures(POST_dt_dfixup_crop(RV, d)) __CPROVER_assigns());
#define POST_dt_dfixup(ret, d) (POST_dt_dfixup_valid(ret, d) && POST_dt_dfixup_crop(ret, d))

#define PRE_dt_conv_to_daisy(t) (V_d(t))
#define POST_dt_conv_to_daisy(ret, t) ((int)(ret) == A_d(t))
dt_daisy_t dt_conv_to_daisy(struct dt_d_s that)
CONTRACT(PRE_dt_conv_to_daisy(that), POST_dt_conv_to_daisy(RV, that));
#define V_TGT(t) ((t) == DT_YMD || (t) == DT_YMCW || (t) == DT_YWD || (t) == DT_YD || (t) == DT_DAISY || (t) == DT_LDN || (t) == DT_MDN)
#define PRE_dt_dconv(tgt, d) (V_d(d) && V_TGT(tgt))
/* for day-number targets the range of the result follows from SAME_d and spec lemma L_range (valid civil values denote days 1..911280) */
#define POST_dt_dconv(ret, tgt, d) ((ret).typ == (tgt) && (!CIVIL_T(tgt) || V_d(ret)) && SAME_d(ret, d))
struct dt_d_s dt_dconv(dt_dtyp_t tgttyp, struct dt_d_s d)
CONTRACT(PRE_dt_dconv(tgttyp, d), POST_dt_dconv(RV, tgttyp, d));

/* getters on the sum type: value == field of the civil date of A(d), whatever the representation */
#define PRE_dt_get_wday(t) (V_d(t) && ((t).typ == DT_YMD || (t).typ == DT_YMCW || (t).typ == DT_DAISY || (t).typ == DT_YWD))
#define POST_dt_get_wday(ret, t) ((int)(ret) == W_d(t))
dt_dow_t dt_get_wday(struct dt_d_s that)
CONTRACT(PRE_dt_get_wday(that), POST_dt_get_wday(RV, that));
/* civil field getters: for civil values in terms of the (GY, GYD) pair, for day numbers via the year of the day number */
#define Y_OF(t) ((t).typ == DT_DAISY ? S_daisy_year(A_d(t)) : GY_d(t))
#define YD_OF(t) ((t).typ == DT_DAISY ? A_d(t) - S_JAN00(S_daisy_year(A_d(t))) : GYD_d(t))
#define PRE_dt_get_year(t) (V_d(t) && ((t).typ == DT_YMD || (t).typ == DT_YMCW || (t).typ == DT_DAISY))
#define POST_dt_get_year(ret, t) ((ret) == Y_OF(t))
int dt_get_year(struct dt_d_s that)
CONTRACT(PRE_dt_get_year(that), POST_dt_get_year(RV, that));
#define PRE_dt_get_mon(t) (V_d(t) && ((t).typ == DT_YMD || (t).typ == DT_YMCW || (t).typ == DT_DAISY || (t).typ == DT_YWD))
#define POST_dt_get_mon(ret, t) ((ret) == S_mon_of_yday(Y_OF(t), YD_OF(t)))
int dt_get_mon(struct dt_d_s that)
CONTRACT(PRE_dt_get_mon(that), POST_dt_get_mon(RV, that));
#define PRE_dt_get_mday(t) (V_d(t) && ((t).typ == DT_YMD || (t).typ == DT_YMCW))
#define POST_dt_get_mday(ret, t) ((ret) == S_mday_of_yday(Y_OF(t), YD_OF(t)))
int dt_get_mday(struct dt_d_s that)
CONTRACT(PRE_dt_get_mday(that), POST_dt_get_mday(RV, that));
/* dt_get_yday: documented as day-of-year for ymd/daisy; for ywd it is the raw ISO yday (may be <1 / >ydays) */
#define PRE_dt_get_yday(t) (V_d(t) && ((t).typ == DT_YMD || (t).typ == DT_DAISY || (t).typ == DT_YWD))
#define POST_dt_get_yday(ret, t) ((t).typ == DT_YWD ? ((int)(ret) == S_YWD_RAWYD((int)(t).ywd.y, (int)(t).ywd.c, (int)(t).ywd.w)) : ((int)(ret) == YD_OF(t)))
unsigned int dt_get_yday(struct dt_d_s that)
CONTRACT(PRE_dt_get_yday(that), POST_dt_get_yday(RV, that));

/* ------------------------------------------------------------ dispatchers: dt_dadd_d / dt_dadd_w / dt_dadd (DURD, DURWK) */
/* day number in the form natural to each representation (all equal to A_d by spec lemmas L_ywd, L_monof) */
static inline int AN_d(struct dt_d_s d)
{
	switch (d.typ) {
	case DT_YMD: return A_YMD(d.ymd);
	case DT_YD: return A_YD(d.yd);
	case DT_YWD: return N_YWD(d.ywd);
	case DT_DAISY: return (int)d.daisy;
	case DT_LDN: return (int)d.ldn - S_LDN_BASE;
	case DT_MDN: return (int)d.mdn - S_MDN_BASE;
	default: return 0;
	}
}
#define ADD_T(t) ((t) == DT_YMD || (t) == DT_YD || (t) == DT_YWD || (t) == DT_DAISY || (t) == DT_LDN || (t) == DT_MDN)
/* the first 16 bits of a dt_d_s hold typ, fix, xxx, neg and two unnamed fields that the enclosing dt_dt_s uses for its sandwich, znfxd,
 * tai and zdiff flags (lib/date-core.h: "unused here, but used by inherited types"): date arithmetic must hand all of them back unchanged */
union verif_d_raw { struct dt_d_s s; uint64_t w; };
#define RAW_d(X_) (((union verif_d_raw){.s = (X_)}).w)
#define SAME_META(r, d) ((r).typ == (d).typ && (r).param == (d).param && (r).neg == (d).neg && (r).fix == (d).fix && (r).xxx == (d).xxx && \
	(RAW_d(r) & 0xffffULL) == (RAW_d(d) & 0xffffULL))
#define PRE_dt_dadd_d(d, n) (V_d(d) && ADD_T((d).typ) && N_OK(n) && IN_RANGE(AN_d(d) + (n)))
#define POST_dt_dadd_d(ret, d, n) (SAME_META(ret, d) && V_d(ret) && AN_d(ret) == AN_d(d) + (n))
struct dt_d_s dt_dadd_d(struct dt_d_s d, int n)
CONTRACT(PRE_dt_dadd_d(d, n), POST_dt_dadd_d(RV, d, n));
#define PRE_dt_dadd_w(d, n) (V_d(d) && ADD_T((d).typ) && (n) >= -140000 && (n) <= 140000 && IN_RANGE(AN_d(d) + 7 * (n)))
#define POST_dt_dadd_w(ret, d, n) (SAME_META(ret, d) && V_d(ret) && AN_d(ret) == AN_d(d) + 7 * (n))
struct dt_d_s dt_dadd_w(struct dt_d_s d, int n)
CONTRACT(PRE_dt_dadd_w(d, n), POST_dt_dadd_w(RV, d, n));
/* dt_dadd with a day or week duration */
/* C04: months / years on ymd values: (year, month) moves by exactly n months (12 n for years), the day field is kept (lazy ultimo) */
#define MIDX(y, m) (12 * (int)(y) + (int)(m) - 1)
#define M_RNG(Y_, M_, N_) ((N_) >= -30000 && (N_) <= 30000 && MIDX(Y_, M_) + (N_) >= MIDX(1601, 1) && MIDX(Y_, M_) + (N_) <= MIDX(4095, 12))
#define Y_RNG(Y_, N_) ((N_) >= -2500 && (N_) <= 2500 && V_YEAR((int)(Y_) + (N_)))
/* per calendar: what a month / year step keeps and what it moves (the crop is left to the fixup at print time) */
#define ADDM_YMD(R_, D_, N_) (L_YMD(R_) && (R_).d == (D_).d && MIDX((R_).y, (R_).m) == MIDX((D_).y, (D_).m) + (N_))
#define ADDM_YMCW(R_, D_, N_) (L_YMCW(R_) && (R_).c == (D_).c && (R_).w == (D_).w && MIDX((R_).y, (R_).m) == MIDX((D_).y, (D_).m) + (N_))
#define ADDY_YMD(R_, D_, N_) (L_YMD(R_) && (R_).d == (D_).d && (R_).m == (D_).m && (int)(R_).y == (int)(D_).y + (N_))
#define ADDY_YMCW(R_, D_, N_) (L_YMCW(R_) && (R_).c == (D_).c && (R_).w == (D_).w && (R_).m == (D_).m && (int)(R_).y == (int)(D_).y + (N_))
#define ADDY_YD(R_, D_, N_) ((R_).d == (D_).d && (int)(R_).y == (int)(D_).y + (N_))
#define ADDY_YWD(R_, D_, N_) ((int)(R_).y == (int)(D_).y + (N_) && (R_).c == (D_).c && (R_).w == (D_).w && (int)(R_).hang == S_HANG((int)(D_).y + (N_)))
#define PRE_dt_dadd_m(d, n) (((d).typ == DT_YMD && L_YMD((d).ymd) && M_RNG((d).ymd.y, (d).ymd.m, n)) || ((d).typ == DT_YMCW && L_YMCW((d).ymcw) && M_RNG((d).ymcw.y, (d).ymcw.m, n)))
#define POST_dt_dadd_m(ret, d, n) (SAME_META(ret, d) && ((d).typ == DT_YMD ? ADDM_YMD((ret).ymd, (d).ymd, n) : ADDM_YMCW((ret).ymcw, (d).ymcw, n)))
struct dt_d_s dt_dadd_m(struct dt_d_s d, int n)
CONTRACT(PRE_dt_dadd_m(d, n), POST_dt_dadd_m(RV, d, n));
#define PRE_dt_dadd_y(d, n) (((d).typ == DT_YMD && L_YMD((d).ymd) && Y_RNG((d).ymd.y, n)) || ((d).typ == DT_YMCW && L_YMCW((d).ymcw) && Y_RNG((d).ymcw.y, n)) || \
	((d).typ == DT_YD && L_YD((d).yd) && Y_RNG((d).yd.y, n)) || ((d).typ == DT_YWD && L_YWD((d).ywd) && Y_RNG((d).ywd.y, n)))
#define POST_dt_dadd_y(ret, d, n) (SAME_META(ret, d) && ((d).typ == DT_YMD ? ADDY_YMD((ret).ymd, (d).ymd, n) : (d).typ == DT_YMCW ? ADDY_YMCW((ret).ymcw, (d).ymcw, n) : \
	(d).typ == DT_YD ? ADDY_YD((ret).yd, (d).yd, n) : ADDY_YWD((ret).ywd, (d).ywd, n)))
struct dt_d_s dt_dadd_y(struct dt_d_s d, int n)
CONTRACT(PRE_dt_dadd_y(d, n), POST_dt_dadd_y(RV, d, n));

#define DADD_MONTHS(dur) ((dur).durtyp == DT_DURMO ? (dur).dv : 3 * (dur).dv)
#define PRE_dt_dadd(d, dur) (((dur).durtyp == DT_DURD && PRE_dt_dadd_d(d, (dur).dv)) || ((dur).durtyp == DT_DURWK && PRE_dt_dadd_w(d, (dur).dv)) || \
	(((dur).durtyp == DT_DURMO || (dur).durtyp == DT_DURQU) && (dur).dv >= -10000 && (dur).dv <= 10000 && PRE_dt_dadd_m(d, DADD_MONTHS(dur))) || \
	((dur).durtyp == DT_DURYR && PRE_dt_dadd_y(d, (dur).dv)))
#define POST_dt_dadd(ret, d, dur) \
	(((dur).durtyp == DT_DURD || (dur).durtyp == DT_DURWK) ? (SAME_META(ret, d) && V_d(ret) && AN_d(ret) == AN_d(d) + ((dur).durtyp == DT_DURWK ? 7 : 1) * (dur).dv) : \
	 (dur).durtyp == DT_DURYR ? POST_dt_dadd_y(ret, d, (dur).dv) : POST_dt_dadd_m(ret, d, DADD_MONTHS(dur)))
struct dt_d_s dt_dadd(struct dt_d_s d, struct dt_ddur_s dur)
CONTRACT(PRE_dt_dadd(d, dur), POST_dt_dadd(RV, d, dur));


/* date difference; DT_DURD: plain difference of day numbers (other duration types: see C05 groups) */
/* extern leaves used by other translation units */
#define PRE___get_mdays(y, m) (1)
#define POST___get_mdays(ret, y, m) \
	(((m) >= 1 && (m) <= 12) ? (ret) == (unsigned)S_MDAYS(y, m) : (ret) == 0)
unsigned int __get_mdays(unsigned int y, unsigned int m)
CONTRACT(PRE___get_mdays(y, m), POST___get_mdays(RV, y, m));

#define PRE___get_isowk(y) ((y) >= 1601 && (y) <= 4096)
#define POST___get_isowk(ret, y) ((int)(ret) == S_ISOWEEKS((int)(y)))
unsigned int __get_isowk(unsigned int y)
CONTRACT(PRE___get_isowk(y), POST___get_isowk(RV, y));


/* sign of a date duration: value+unit durations by their value, compound ones by the neg bit */
#define VAL_DUR(t) ((t) == DT_DURD || (t) == DT_DURBD || (t) == DT_DURWK || (t) == DT_DURMO || (t) == DT_DURQU || (t) == DT_DURYR)
#define PRE_dt_dur_neg_p(dur) (1)
#define POST_dt_dur_neg_p(ret, dur) ((ret) == (VAL_DUR((dur).durtyp) ? ((dur).dv < 0) : (int)(dur).neg))
int dt_dur_neg_p(struct dt_ddur_s dur)
CONTRACT(PRE_dt_dur_neg_p(dur), POST_dt_dur_neg_p(RV, dur));

#define SGN3(a, b) ((a) < (b) ? -1 : (a) > (b) ? 1 : 0)
/* ymcw values are not monotone in their bit pattern: dedicated comparison */
#define PRE___ymcw_cmp(d1, d2) (V_YMCW(d1) && V_YMCW(d2))
#define POST___ymcw_cmp(ret, d1, d2) ((ret) == (GY_YMCW(d1) != GY_YMCW(d2) ? SGN3(GY_YMCW(d1), GY_YMCW(d2)) : SGN3(GYD_YMCW(d1), GYD_YMCW(d2))))
int __ymcw_cmp(dt_ymcw_t d1, dt_ymcw_t d2)
CONTRACT(PRE___ymcw_cmp(d1, d2), POST___ymcw_cmp(RV, d1, d2));

/* comparison of same-typed dates: the chronological order (C08) */
#define CMP_T(t) ((t) == DT_YMD || (t) == DT_YD || (t) == DT_YWD || (t) == DT_DAISY)
#define PRE_dt_dcmp(d1, d2) ((d1).typ == (d2).typ && CMP_T((d1).typ) && V_d(d1) && V_d(d2))
#define DCMP3(a, b) ((a) < (b) ? -1 : (a) > (b) ? 1 : 0)
#define POST_dt_dcmp(ret, d1, d2) \
	((ret) == ((d1).typ == DT_DAISY ? DCMP3((d1).daisy, (d2).daisy) : \
		   (d1).typ == DT_YWD ? DCMP3(((int)(d1).ywd.y * 64 + (int)(d1).ywd.c) * 8 + (int)(d1).ywd.w, ((int)(d2).ywd.y * 64 + (int)(d2).ywd.c) * 8 + (int)(d2).ywd.w) : \
		   (GY_d(d1) != GY_d(d2) ? DCMP3(GY_d(d1), GY_d(d2)) : DCMP3(GYD_d(d1), GYD_d(d2)))))
int dt_dcmp(struct dt_d_s d1, struct dt_d_s d2)
CONTRACT(PRE_dt_dcmp(d1, d2), POST_dt_dcmp(RV, d1, d2));

/* range test through the 4x4 table: 1 iff d1 <= d <= d2 (all of one comparable type), 0 iff outside, -1 iff not comparable */
#define PRE_dt_d_in_range_p(d, d1, d2) (PRE_dt_dcmp(d, d1) && PRE_dt_dcmp(d, d2))
#define DKEY(x) ((x).typ == DT_DAISY ? (long long)(x).daisy : (x).typ == DT_YWD ? (long long)(((int)(x).ywd.y * 64 + (int)(x).ywd.c) * 8 + (int)(x).ywd.w) : (long long)GY_d(x) * 512 + GYD_d(x))
#define POST_dt_d_in_range_p(ret, d, d1, d2) ((ret) == ((DKEY(d1) <= DKEY(d) && DKEY(d) <= DKEY(d2)) ? 1 : 0))
int dt_d_in_range_p(struct dt_d_s d, struct dt_d_s d1, struct dt_d_s d2)
CONTRACT(PRE_dt_d_in_range_p(d, d1, d2), POST_dt_d_in_range_p(RV, d, d1, d2));

#define DIFF_T(t) ((t) == DT_YMD || (t) == DT_YD || (t) == DT_DAISY || (t) == DT_LDN || (t) == DT_MDN)
/* number of Mon-Fri days among day numbers 1..x (day 1 is a Monday) */
#define W5N(x) (5 * ((x) / 7) + (((x) % 7) < 5 ? ((x) % 7) : 5))
#define PRE_dt_ddiff(tgt, d1, d2, carry) (((tgt) == DT_DURD || (tgt) == DT_DURBD) && V_d(d1) && V_d(d2) && DIFF_T((d1).typ) && DIFF_T((d2).typ))
/* DT_DURD: plain difference of day numbers; DT_DURBD: the number of Mon-Fri days in the half-open interval (d1, d2] (negative the other way round) */
#define POST_dt_ddiff(ret, tgt, d1, d2, carry) \
	((ret).durtyp == DT_DURD && (ret).neg == 0 && (ret).fix == 0 && \
	 ((tgt) == DT_DURD ? (ret).dv == AN_d(d2) - AN_d(d1) : \
	  (AN_d(d2) >= AN_d(d1) ? (ret).dv == W5N(AN_d(d2)) - W5N(AN_d(d1)) : (ret).dv == -(W5N(AN_d(d1)) - W5N(AN_d(d2))))))
struct dt_ddur_s dt_ddiff(dt_durtyp_t tgttyp, struct dt_d_s d1, struct dt_d_s d2, int carry)
CONTRACT(PRE_dt_ddiff(tgttyp, d1, d2, carry), POST_dt_ddiff(RV, tgttyp, d1, d2, carry));

#endif
