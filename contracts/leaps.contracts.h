/* contracts/leaps.contracts.h -- lib/leaps.c: index of the last table entry strictly before the key.
 * One text for the enforcing TU (leaps) and the assuming TUs (tzraw, dt-core). */
#ifndef VERIF_LEAPS_CONTRACTS_H
#define VERIF_LEAPS_CONTRACTS_H
#ifndef LEAPS_NMAX
# define LEAPS_NMAX 30   /* the generated table has 30 entries; the contract covers every sorted table of 2..30 entries */
#endif
#define LEAPS_SORTED(fld, nfld) \
	__CPROVER_forall { int lk; (0 <= lk && lk < LEAPS_NMAX - 1) ==> ((size_t)(lk + 1) < (nfld) ==> (fld)[lk] < (fld)[lk + 1]) }
/* for every strictly increasing table with at least 2 entries and every key <= fld[n-1]:
 * the result i satisfies fld[i] < key <= fld[i+1]; keys at or before fld[0] give 0 */
zidx_t leaps_before_si32(const int32_t fld[], size_t nfld, int32_t key)
VERIF_CONTRACT(__CPROVER_requires(nfld >= 2 && nfld <= LEAPS_NMAX && __CPROVER_is_fresh(fld, nfld * sizeof(int32_t)))
	__CPROVER_requires(LEAPS_SORTED(fld, nfld) && key <= fld[nfld - 1])
	__CPROVER_ensures(__CPROVER_return_value < nfld - 1 && (key <= fld[0] ? __CPROVER_return_value == 0 : (fld[__CPROVER_return_value] < key && key <= fld[__CPROVER_return_value + 1])))
	__CPROVER_assigns());
zidx_t leaps_before_ui32(const uint32_t fld[], size_t nfld, uint32_t key)
VERIF_CONTRACT(__CPROVER_requires(nfld >= 2 && nfld <= LEAPS_NMAX && __CPROVER_is_fresh(fld, nfld * sizeof(uint32_t)))
	__CPROVER_requires(LEAPS_SORTED(fld, nfld) && key <= fld[nfld - 1])
	__CPROVER_ensures(__CPROVER_return_value < nfld - 1 && (key <= fld[0] ? __CPROVER_return_value == 0 : (fld[__CPROVER_return_value] < key && key <= fld[__CPROVER_return_value + 1])))
	__CPROVER_assigns());
#endif
