/* contracts/tzraw.loader.h -- bounded stand-in for the TZif loader zif_open() (C19).
 * Environment stubs (trusted): open/fstat/mmap/munmap/close.  The mapping is a fresh object of exactly
 * st_size bytes with arbitrary content, so any access past the file image is a bounds violation. */
#ifndef VERIF_TZRAW_LOADER_H
#define VERIF_TZRAW_LOADER_H
#ifndef ZIF_IMG_MAX
# define ZIF_IMG_MAX 56
#endif
#if !defined VERIF_NATIVE
size_t verif_img_size;
unsigned char *verif_img;
int verif_open(const char *f) { int fd; __CPROVER_assume(fd == -1 || fd == 3); return fd; }
int verif_fstat(int fd, struct stat *st) { int r; __CPROVER_assume(r == 0 || r == -1); st->st_size = (off_t)verif_img_size; return r; }
void *verif_mmap(size_t len)
{
	_Bool fail;
	if (fail) return MAP_FAILED;
	__CPROVER_assert(len == verif_img_size, "mmap length equals the file size");
	return verif_img;
}
int verif_munmap(void *p, size_t len) { return 0; }
int verif_close(int fd) { return 0; }

/* lookups on a loaded zone stay inside the loaded data: what zif_open's result must satisfy */
static void h_zif_open_body(void)
{
	size_t n;
	__CPROVER_assume(n <= ZIF_IMG_MAX);
	verif_img_size = n;
	verif_img = malloc(n);
	__CPROVER_assume(verif_img != NULL);
	/* stated restriction of the bounded stand-in: the six big-endian count fields of the (first) header are < 4 */
	if (n >= 44) {
		for (int k = 20; k < 44; k += 4) {
			__CPROVER_assume(verif_img[k] == 0 && verif_img[k + 1] == 0 && verif_img[k + 2] == 0 && verif_img[k + 3] < 4);
		}
	}
	zif_t z = zif_open("X");
	if (z != NULL) {
		__CPROVER_assert(z->ntr == 0 || __CPROVER_r_ok(z->trs, z->ntr * sizeof(stamp_t)), "loaded transitions lie inside the allocation");
		__CPROVER_assert(z->ntr == 0 || __CPROVER_r_ok(z->tys, z->ntr * sizeof(zty_t)), "loaded types lie inside the allocation");
		for (size_t i = 0; i < z->ntr && i < ZIF_IMG_MAX; i++) {
			__CPROVER_assert(z->tys[i] < z->nty, "every transition's type index is inside the offset table");
		}
		for (size_t i = 0; i + 1 < z->ntr && i < ZIF_IMG_MAX; i++) {
			__CPROVER_assert(z->trs[i] < z->trs[i + 1], "loaded transitions strictly increasing");
		}
	}
}
#endif
#endif
