/* contracts/ddiff.contracts.h -- src/ddiff.c (C06): the unit cascade conserves the total */
#ifndef VERIF_DDIFF_CONTRACTS_H
#define VERIF_DDIFF_CONTRACTS_H
#define RV __CPROVER_return_value
/* total of a pure seconds duration */
#define DD_TOT(dur) ((long long)(dur).dv)
#define DD_ABS(dur) (DD_TOT(dur) < 0 ? -DD_TOT(dur) : DD_TOT(dur))
/* factor of the finest requested fixed-length unit */
#define DD_FINEST(f) ((f).has_sec ? 1LL : (f).has_min ? 60LL : (f).has_hour ? 3600LL : (f).has_day ? 86400LL : (f).has_week ? 604800LL : 0LL)
#define DD_SUM(r) ((long long)(r).w * 604800LL + (long long)(r).d * 86400LL + (long long)(r).H * 3600LL + (long long)(r).M * 60LL + (long long)(r).S)
#define DD_ANY(f) ((f).has_sec || (f).has_min || (f).has_hour || (f).has_day || (f).has_week)
/* the refinement rule as a mathematical function: successive quotients of the absolute total by the
 * requested units, largest first; what is left below the finest requested unit is dropped */
struct S_casc { long long w, d, H, M, S, rest; };
static inline struct S_casc S_cascade(long long T, int hw, int hd, int hH, int hM, int hS)
{
	struct S_casc r = {0, 0, 0, 0, 0, 0};
	if (hw) { r.w = T / 604800LL; T = T % 604800LL; }
	if (hd) { r.d = T / 86400LL; T = T % 86400LL; }
	if (hH) { r.H = T / 3600LL; T = T % 3600LL; }
	if (hM) { r.M = T / 60LL; T = T % 60LL; }
	if (hS) { r.S = T; T = 0; }
	r.rest = T;
	return r;
}
#define PRE_precalc_utc(f, dur) \
	((dur).durtyp == DT_DURS && (dur).tai == 0 && (dur).neg == 0 && DD_TOT(dur) > -(1LL << 40) && DD_TOT(dur) < (1LL << 40) && \
	 !(f).has_year && !(f).has_mon && !(f).has_qtr && !(f).has_biz && !(f).has_nano)
#define CASC(f, dur) S_cascade(DD_ABS(dur), (f).has_week, (f).has_day, (f).has_hour, (f).has_min, (f).has_sec)
#define POST_precalc_utc(ret, f, dur) \
	((ret).neg == (DD_TOT(dur) < 0) && (ret).Y == 0 && (ret).m == 0 && (ret).q == 0 && (ret).N == 0 && \
	 (long long)(ret).w == CASC(f, dur).w && (long long)(ret).d == CASC(f, dur).d && (long long)(ret).H == CASC(f, dur).H && \
	 (long long)(ret).M == CASC(f, dur).M && (long long)(ret).S == CASC(f, dur).S)
/* C14: real-seconds durations (dt_dtdiff with the TAI target): .soft is the UTC difference, .corr the leap seconds between the operands.
 * The slots, taken with the sign that ddiff_prnt prints in front, add up to the UTC difference whatever the sign of the duration
 * (ddiff_prnt then adds the correction, with the same sign convention, when it prints %rS) */
#define PRE_precalc_tai(f, dur) \
	((dur).durtyp == DT_DURS && (dur).tai == 1 && (dur).neg == 0 && (dur).corr >= -64 && (dur).corr <= 64 && (f).has_sec && \
	 !(f).has_year && !(f).has_mon && !(f).has_qtr && !(f).has_biz && !(f).has_nano)
#define POST_precalc_tai(ret, f, dur) \
	((ret).Y == 0 && (ret).m == 0 && (ret).q == 0 && (ret).N == 0 && ((ret).neg ? -DD_SUM(ret) : DD_SUM(ret)) == (long long)(dur).soft)
#define PRE_precalc(f, dur) (PRE_precalc_utc(f, dur) || PRE_precalc_tai(f, dur))
#define POST_precalc(ret, f, dur) ((dur).tai ? POST_precalc_tai(ret, f, dur) : POST_precalc_utc(ret, f, dur))
static struct precalc_s precalc(durfmt_t f, struct dt_dtdur_s dur)
VERIF_CONTRACT(__CPROVER_requires(PRE_precalc(f, dur)) __CPROVER_ensures(POST_precalc(RV, f, dur)) __CPROVER_assigns());

#if !defined VERIF_NATIVE
/* lemma about the rule itself: the components recombine to the total minus the dropped rest, the rest is below the
 * finest requested unit, and every refined unit is inside its natural range under the next coarser requested one */
static void L_cascade(long long T, int hw, int hd, int hH, int hM, int hS)
{
	__CPROVER_assume(T >= 0 && T < L_CASC_TMAX);
	__CPROVER_assume((hw == 0 || hw == 1) && (hd == 0 || hd == 1) && (hH == 0 || hH == 1) && (hM == 0 || hM == 1) && (hS == 0 || hS == 1));
	struct S_casc r = S_cascade(T, hw, hd, hH, hM, hS);
	long long fin = hS ? 1 : hM ? 60 : hH ? 3600 : hd ? 86400 : hw ? 604800 : 0;
	__CPROVER_assert(r.w * 604800LL + r.d * 86400LL + r.H * 3600LL + r.M * 60LL + r.S + r.rest == T, "L_cascade: components plus dropped rest recombine to the total");
	__CPROVER_assert(r.rest >= 0 && (fin == 0 ? r.rest == T : r.rest < fin), "L_cascade: dropped rest is below the finest requested unit");
	__CPROVER_assert(!hw || r.d < 7, "L_cascade: days < 7 under weeks");
	__CPROVER_assert(!hd || r.H < 24, "L_cascade: hours < 24 under days");
	__CPROVER_assert(!hH || r.M < 60, "L_cascade: minutes < 60 under hours");
	__CPROVER_assert(!hM || r.S < 60, "L_cascade: seconds < 60 under minutes");
	__CPROVER_assert(r.w >= 0 && r.d >= 0 && r.H >= 0 && r.M >= 0 && r.S >= 0, "L_cascade: no negative component");
}
#endif

#if !defined VERIF_NATIVE
/* C06: the number printer behind every duration specifier: the decimal string ltostr() writes, read back digit by digit, is the
 * value (sign included).  Checked on the real function in windows of the argument (harness-level, bounded). */
static void L_ltostr(long int v)
{
	char buf[24];
	size_t n = ltostr(buf, sizeof(buf), v, -1, 0U);
	size_t i = 0;
	int neg = 0;
	unsigned long acc = 0UL;
	__CPROVER_assert(n >= 1 && n <= 21, "L_ltostr: between 1 and 21 bytes are written");
	if (buf[0] == '-') {
		neg = 1;
		i = 1;
	}
	__CPROVER_assert(i < n, "L_ltostr: at least one digit");
	for (; i < n && i < 22; i++) {
		__CPROVER_assert(buf[i] >= '0' && buf[i] <= '9', "L_ltostr: only digits after the optional sign");
		acc = acc * 10UL + (unsigned long)(buf[i] - '0');
	}
	__CPROVER_assert(neg == (v < 0), "L_ltostr: a minus sign exactly for negative values");
	__CPROVER_assert((neg ? -(long int)acc : (long int)acc) == v, "L_ltostr: the printed decimal number is the value");
}
#endif
#endif
