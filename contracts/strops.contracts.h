/* contracts/strops.contracts.h -- lib/strops.c + lib/strops.h: bounded integer readers/printers, roman numerals (C09, C10) */
#ifndef VERIF_STROPS_CONTRACTS_H
#define VERIF_STROPS_CONTRACTS_H
#define RV __CPROVER_return_value
#define SB_MAX 24  /* symbolic buffer sizes up to SB_MAX bytes (the functions write at most 4 resp. 15 bytes) */

/* ---- printers: never write outside buf[0..z), return the number of bytes written */
static inline size_t ui99topstr(char *restrict b, size_t z, uint32_t d, size_t width, char pad)
VERIF_CONTRACT(__CPROVER_requires(z <= SB_MAX && __CPROVER_is_fresh(b, z) && d <= 99 && (pad == 0 || pad == ' ' || pad == '0'))
	__CPROVER_ensures(RV <= z && RV <= 2 && (z == 0 || RV >= 1))
	__CPROVER_ensures(z < 2 || pad != '0' || width < 2 || (RV == 2 && b[0] == '0' + (char)(d / 10) && b[1] == '0' + (char)(d % 10)))
	__CPROVER_assigns(__CPROVER_object_upto(b, z)));
static inline size_t ui9999topstr(char *restrict b, size_t z, uint32_t d, size_t width, char pad)
VERIF_CONTRACT(__CPROVER_requires(z <= SB_MAX && __CPROVER_is_fresh(b, z) && d <= 9999 && (pad == 0 || pad == ' ' || pad == '0'))
	__CPROVER_ensures(RV <= z && RV <= 4 && (z == 0 || RV >= 1))
	__CPROVER_ensures(z < 4 || pad != '0' || width < 4 || (RV == 4 && b[0] == '0' + (char)(d / 1000) && b[1] == '0' + (char)(d / 100 % 10) && b[2] == '0' + (char)(d / 10 % 10) && b[3] == '0' + (char)(d % 10)))
	__CPROVER_assigns(__CPROVER_object_upto(b, z)));

/* one roman digit: at most 4 bytes, nothing at all when fewer than 4 bytes are left */
static size_t __rom_pr1(char *buf, size_t bsz, unsigned int i, char cnt, char hi, char lo)
VERIF_CONTRACT(__CPROVER_requires(bsz <= SB_MAX && __CPROVER_is_fresh(buf, bsz))
	__CPROVER_ensures(RV <= bsz && RV <= 4 && (bsz >= 4 || RV == 0))
	__CPROVER_ensures(bsz < 4 || RV == (i == 0 || i > 9 ? 0u : i <= 3 ? i : i == 4 ? 2u : i <= 8 ? i - 4 : 2u))
	__CPROVER_assigns(__CPROVER_object_upto(buf, bsz)));
/* whole roman number: stays inside the buffer for every buffer size */
size_t ui32tostrrom(char *restrict buf, size_t bsz, uint32_t d)
VERIF_CONTRACT(__CPROVER_requires(bsz <= SB_MAX && __CPROVER_is_fresh(buf, bsz) && d <= 4095)
	__CPROVER_ensures(RV <= bsz)
	__CPROVER_assigns(__CPROVER_object_upto(buf, bsz)));

/* ---- readers: read only up to the terminating NUL, *ep stays inside the string */
#define IS_STR(s, n) (__CPROVER_is_fresh((s), (n)) && (s)[(n) - 1] == '\0')
int32_t strtoi_lim(const char *str, const char **ep, int32_t llim, int32_t ulim)
VERIF_CONTRACT(__CPROVER_requires(IS_STR(str, 14) && __CPROVER_is_fresh(ep, sizeof(*ep)) && llim >= 0 && ulim >= llim && ulim <= 99999999)
	__CPROVER_ensures(__CPROVER_same_object(*ep, str) && *ep >= str && *ep <= str + 13)
	__CPROVER_ensures(RV >= -2 && RV <= ulim && (RV < 0 || RV >= llim))
	__CPROVER_assigns(*ep));
int32_t romstrtoi_lim(const char *str, const char **ep, int32_t llim, int32_t ulim)
VERIF_CONTRACT(__CPROVER_requires(IS_STR(str, 18) && __CPROVER_is_fresh(ep, sizeof(*ep)) && llim >= 0 && ulim >= llim && ulim <= 99999999)
	__CPROVER_ensures(__CPROVER_same_object(*ep, str) && *ep >= str && *ep <= str + 17)
	__CPROVER_ensures(RV >= -2 && RV <= ulim && (RV < 0 || RV >= llim))
	__CPROVER_assigns(*ep));

#if !defined VERIF_NATIVE
/* ---- C09 round trips on the real printer/parser pairs (two-call lemmas, direct mode) */
static void L_rt_rom(uint32_t d)
{
	char buf[20]; const char *ep;
	__CPROVER_assume(d >= 1 && d <= 3999);
	size_t n = ui32tostrrom(buf, 19, d);
	__CPROVER_assert(n >= 1 && n <= 15, "L_rt_rom: roman numerals of 1..3999 take 1..15 bytes");
	buf[n] = '\0';
	int32_t v = romstrtoi_lim(buf, &ep, 1, 4095);
	__CPROVER_assert(v == (int32_t)d, "L_rt_rom: parsing the printed roman numeral returns the value");
	__CPROVER_assert(ep == buf + n, "L_rt_rom: the parser consumes the whole numeral");
}
static void L_rt_num(uint32_t d, char follow)
{
	char buf[8]; const char *ep;
	__CPROVER_assume(d <= 9999 && (unsigned char)(follow ^ '0') >= 10U);
	size_t n = ui9999topstr(buf, 4, d, 4, '0');
	__CPROVER_assert(n == 4, "L_rt_num: %Y prints 4 digits");
	buf[n] = follow; buf[n + 1] = '\0';
	int32_t v = strtoi_lim(buf, &ep, 0, 9999);
	__CPROVER_assert(v == (int32_t)d && ep == buf + 4, "L_rt_num: 4-digit field parses back and stops at the next byte");
	__CPROVER_assume(d <= 99);
	n = ui99topstr(buf, 2, d, 2, '0');
	buf[n] = follow; buf[n + 1] = '\0';
	v = strtoi_lim(buf, &ep, 0, 99);
	__CPROVER_assert(n == 2 && v == (int32_t)d && ep == buf + 2, "L_rt_num: 2-digit field parses back");
}
/* %j: day of the year as __strfd_card prints it (ui999topstr, width argument (3 - 0) << 1 as at the call sites, zero padding, any buffer
 * of at least 3 bytes) and as __strpd_card reads it back (strtoi_lim 1..366) */
static void L_rt_j(uint32_t d, char follow, size_t bsz)
{
	char buf[8]; const char *ep;
	__CPROVER_assume(d >= 1 && d <= 366 && bsz >= 3 && bsz <= 6 && (unsigned char)(follow ^ '0') >= 10U);
	size_t n = ui999topstr(buf, bsz, d, 6, '0');
	__CPROVER_assert(n == 3, "L_rt_j: %j prints 3 digits");
	buf[n] = follow; buf[n + 1] = '\0';
	int32_t v = strtoi_lim(buf, &ep, 1, 366);
	__CPROVER_assert(v == (int32_t)d && ep == buf + 3, "L_rt_j: 3-digit day of the year parses back and stops at the next byte");
}
#endif
#endif
