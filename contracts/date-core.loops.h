/* loop contracts, see below */
