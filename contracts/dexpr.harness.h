/* contracts/dexpr.harness.h -- C17 bounded stand-in: the real __denega / __dnf / dexpr_simplify / __disj_matches_p / free_dexpr of
 * src/dexpr.c on ALL expression trees of depth <= DEX_DEPTH built from comparison atoms (op, day) over one symbolic stream day.
 * Atoms are real struct dexkv_s values (standard spec, date-only DAISY cells); dt_dcmp is replaced by its contract. */
#ifndef VERIF_DEXPR_HARNESS_H
#define VERIF_DEXPR_HARNESS_H
#include "date-core.public.h"
#if !defined VERIF_NATIVE
#ifndef DEX_DEPTH
# define DEX_DEPTH 2
#endif
/* dt_dcmp lives in another translation unit: use its contract (proved in group dm.dt_dcmp.*) as assert-PRE / assume-POST stub,
 * which is what --replace-call-with-contract does; spelled out here because this harness runs without dfcc */
int dt_dcmp(struct dt_d_s d1, struct dt_d_s d2)
{
	int r;
	__CPROVER_assert(PRE_dt_dcmp(d1, d2), "dt_dcmp precondition holds at the call");
	__CPROVER_assume(POST_dt_dcmp(r, d1, d2));
	return r;
}
/* ordinary Boolean / comparison semantics of a tree (evaluated BEFORE the rewriting) */
static _Bool S_atom(const struct dexkv_s *kv, dt_daisy_t x)
{
	int cmp = x < kv->d.d.daisy ? -1 : x > kv->d.d.daisy ? 1 : 0;
	return (cmp == 0 && (kv->op & 1)) || (cmp < 0 && (kv->op & 2)) || (cmp > 0 && (kv->op & 4));
}
static _Bool S_eval(const struct dexpr_s *e, dt_daisy_t x, int depth)
{
	_Bool r;
	if (e->type == DEX_VAL || depth == 0) {
		r = S_atom(e->kv, x);
	} else if (e->type == DEX_CONJ) {
		r = S_eval(e->left, x, depth - 1) && S_eval(e->right, x, depth - 1);
	} else {
		r = S_eval(e->left, x, depth - 1) || S_eval(e->right, x, depth - 1);
	}
	return e->nega ? !r : r;
}
static struct dexpr_s *mk_tree(int depth)
{
	struct dexpr_s *e = calloc(1, sizeof(*e));
	__CPROVER_assume(e != NULL);
	_Bool leaf, conj, neg;
	e->nega = neg;
	if (depth == 0 || leaf) {
		unsigned op; dt_daisy_t c;
		__CPROVER_assume(op >= 1 && op <= 6 && c >= 1 && c <= 911280);
		e->type = DEX_VAL;
		e->kv->sp.spfl = DT_SPFL_N_STD;
		e->kv->op = op;
		e->kv->d.d.typ = DT_DAISY;
		e->kv->d.d.daisy = c;
		e->kv->d.sandwich = 0;
	} else {
		e->type = conj ? DEX_CONJ : DEX_DISJ;
		e->left = mk_tree(depth - 1);
		e->right = mk_tree(depth - 1);
	}
	return e;
}
static void h_dexpr_body(void)
{
	dt_daisy_t x;
	__CPROVER_assume(x >= 1 && x <= 911280);
	struct dexpr_s *root = mk_tree(DEX_DEPTH);
	struct dt_dt_s d = {DT_UNK};
	d.d.typ = DT_DAISY; d.d.daisy = x; d.sandwich = 0;
	_Bool expected = S_eval(root, x, DEX_DEPTH);
	dexpr_simplify(root);
	_Bool got = __disj_matches_p(root, d);
	__CPROVER_assert(got == expected, "S_eval: evaluation of the simplified tree equals ordinary Boolean semantics of the original");
#if defined DEX_CHECK_FREE
	free_dexpr(root);
	free(root);
#endif
}
#endif
#endif
