#!/bin/sh
# run once after a fresh restore, offline.  Makes sure the generated sources of /repo that the harness TUs include
# exist (they are build products of the in-tree autotools build) and that the tools are present.
set -e
for t in cbmc goto-cc goto-instrument gcc python3; do command -v $t >/dev/null || { echo "missing tool $t"; exit 1; }; done
need=0
for f in lib/fmt-special.c lib/leap-seconds.def lib/version.c src/config.h src/dexpr-parser.c src/strpdt-special.c; do
	[ -f /repo/$f ] || need=1
done
if [ $need = 1 ]; then make -C /repo >/dev/null 2>&1 || true; fi
python3 /verif/tools/gen_tables.py /verif/spec/tables.h
mkdir -p /verif/.work /verif/evidence /verif/replays
echo setup ok
