#!/bin/bash
# usage: tools/try_seed.sh <seed-id> <property> [extra check args]   -- applies the seeded patch to /repo, runs the check, reverts
id=$1; prop=$2; shift 2
cd /repo || exit 2
if ! git apply --check /verif/seeded/$id/patch.diff 2>/dev/null; then echo "PATCH $id does not apply to current /repo"; exit 3; fi
git apply /verif/seeded/$id/patch.diff
# evidence/replays written while a seed is applied must never replace the records of the unchanged tree
rm -rf /tmp/verif_evidence_bak && cp -a /verif/evidence /tmp/verif_evidence_bak
(cd /verif && ./check $prop "$@" 2>&1 | grep -E "^VIOLATION|^UNDECIDED|^$prop tier|KNOWN" | cut -c1-400)
rc=${PIPESTATUS[0]}
git checkout -- . 
mkdir -p /verif/evidence_seeded && cp /verif/evidence/$prop.json /verif/evidence_seeded/${id}_$prop.json 2>/dev/null
rm -rf /verif/evidence && mv /tmp/verif_evidence_bak /verif/evidence
echo "seed=$id property=$prop reverted; git status: $(git status --short | grep -v '^??' | wc -l) modified files"
