#!/usr/bin/env python3
"""Generate MANIFEST.json from obligations/properties_meta.json (single source for per-property texts)."""
import json, os
ROOT = os.path.dirname(os.path.dirname(os.path.abspath(__file__)))
meta = json.load(open(os.path.join(ROOT, 'obligations', 'properties_meta.json')))
props = [json.loads(l) for l in open(os.path.join(ROOT, 'properties.jsonl'))]
checks, na = [], []
for p in props:
    pid = p['id']
    m = meta.get(pid, {})
    if not m.get('claimed'):
        na.append({'property_id': pid, 'reason': m.get('na_reason', 'no obligation group within reach of the contract verifier has been built for this property (see DESIGN.md)')})
        continue
    checks.append({
        'property_id': pid,
        'quick_cmd': './check %s --tier quick' % pid,
        'thorough_cmd': './check %s --tier thorough' % pid,
        'evidence_file': '/verif/evidence/%s.json' % pid,
        'replay_cmd_template': './check --replay {path}',
        'engine': 'cbmc-contracts',
        'level_claimed': {'category': m.get('level', 'proof'), 'text': m['level_text'], 'design_ref': m.get('design_ref', 'DESIGN.md section 5 / %s' % pid)},
        'level_note': m['level_note'],
        'technique': m.get('technique', 'CBMC function contracts (goto-instrument --dfcc --enforce-contract / --replace-call-with-contract, loop contracts) on the real /repo sources'),
    })
man = {
    'version': 1,
    'setup_cmd': 'sh ./setup.sh',
    'hooks': {
        'guard': 'DATEUTILS_VERIF',
        'enable': 'none needed: contracts are attached to redeclarations in /verif/contracts/*.h placed after the real TU, loop contracts come from --loop-contracts-file; harness TUs are compiled with -DDATEUTILS_VERIF but no /repo source tests that macro',
        'baseline_off_cmd': 'make -C /repo -k check',
        'source_commits': [],
        'add_only': True,
    },
    'engines': [{'name': 'cbmc-contracts', 'path': '/verif/vf/driver.py', 'serves_properties': [c['property_id'] for c in checks],
                 'kind_free_text': 'contract-based deductive verification: CBMC 6.11 code contracts enforced per function (dfcc), callers checked against callee contracts, loop contracts; bounded stand-ins labelled as such'}],
    'checks': checks,
    'not_applicable': na,
    'notes': 'See DESIGN.md.  Exit 0 = all obligations in the dependency closure discharged; exit 1 = named obligation failed (VIOLATION line); exit 2 = undecided (timeouts, tool errors).',
}
json.dump(man, open(os.path.join(ROOT, 'MANIFEST.json'), 'w'), indent=1)
print('claimed:', [c['property_id'] for c in checks])
