#!/bin/bash
# usage: tools/confirm_seed.sh <seed-id> <deliver-dir> <property>
# copies the deliverables to /verif/seeded/<seed-id>/, then confirms in a scratch worktree:
# patch applies to /repo HEAD, builds, test suite passes, demo passes on /repo and fails on the patched tree.
set -u
id=$1; src=$2; prop=$3
dst=/verif/seeded/$id
mkdir -p $dst
cp -r $src/* $dst/ 2>/dev/null
wt=/tmp/confirm_$id
git -C /repo worktree remove --force $wt 2>/dev/null; rm -rf $wt
git -C /repo worktree add -q $wt HEAD && rsync -a --exclude .git /repo/ $wt/
cd $wt
if ! git apply $dst/patch.diff; then echo "PATCH DOES NOT APPLY"; exit 1; fi
make -j16 >/tmp/confirm_$id.make.log 2>&1; mk=$?
make -k check -j16 > /tmp/confirm_$id.check.log 2>&1
tot=$(grep -E "^# TOTAL" /tmp/confirm_$id.check.log | tail -1 | awk '{print $3}')
pas=$(grep -E "^# PASS" /tmp/confirm_$id.check.log | tail -1 | awk '{print $3}')
fai=$(grep -E "^# FAIL" /tmp/confirm_$id.check.log | tail -1 | awk '{print $3}')
chmod +x $dst/demo.sh
(cd $dst && bash ./demo.sh /repo > /tmp/confirm_$id.demo_repo.log 2>&1); d0=$?
(cd $dst && bash ./demo.sh $wt > /tmp/confirm_$id.demo_mut.log 2>&1); d1=$?
echo "seed=$id make=$mk tests total=$tot pass=$pas fail=$fai demo(/repo)=$d0 demo(mutant)=$d1"
python3 - <<PY
import json
json.dump({"seed": "$id", "breaks_property": "$prop", "confirmed": {"patch_applies": True, "make_exit": $mk, "tests_total": "$tot", "tests_pass": "$pas", "tests_fail": "$fai", "demo_on_repo_exit": $d0, "demo_on_mutant_exit": $d1},
 "what_i_ran": "git worktree + rsync of /repo; git apply patch.diff; make -j16; make -k check -j16; demo.sh /repo; demo.sh <patched tree>",
 "needs_to_manifest": open("$dst/notes.md").read()[:1500] if __import__("os").path.exists("$dst/notes.md") else ""}, open("$dst/meta.json","w"), indent=1)
PY
cd /; git -C /repo worktree remove --force $wt; rm -rf $wt /tmp/confirm_$id.*.log
