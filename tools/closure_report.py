#!/usr/bin/env python3
"""print, per claimed property, the size of the quick closure and which enforcers are deferred to the thorough tier"""
import sys, json, importlib.util
spec = importlib.util.spec_from_file_location('driver', '/verif/vf/driver.py'); d = importlib.util.module_from_spec(spec); spec.loader.exec_module(d)
d.load_registry()
meta = json.load(open('/verif/obligations/properties_meta.json'))
for pid, m in sorted(meta.items()):
    if not m.get('claimed'):
        continue
    gs, missing, deferred = d.closure(pid, 'quick', stop=set((m.get('closure_stop') or {})))
    print(pid, 'groups=%d' % len(gs), 'timeouts>600:', [(g['id'], g['timeout']) for g in gs if g['timeout'] > 600], 'deferred:', deferred, 'missing:', missing)
