# src/prchunk.c (C18) -- bounded stand-in, shrunk window via the guarded size hooks
TU('prchunk', 'src/prchunk.c', SRC_CFLAGS + ['-DVERIF_MAX_NLINES=2', '-DVERIF_MAX_LLEN=3', '-DVERIF_CHUNK_SIZE=2', '-Dread(fd,b,n)=verif_read(fd,b,n)', '-Dmmap(a,len,...)=verif_mmap(len)',
                                             '-DPRCH_STREAM_MAX=4'],
   pre=['contracts/prchunk.harness.pre.h'], post=['contracts/prchunk.harness.h'])
G('pc.stream', 'prchunk', 'h_prchunk_body', ['C18'], body='\th_prchunk_body();', direct=True, native=False, reach=False, must=['LINES'], unwind=8, timeout=1200,
  flags=['--no-malloc-may-fail'],
  bounded=dict(bound='window of 2 lines x 3 bytes (6 bytes), read() results of <= 2 bytes, ghost streams of <= 4 bytes of text lines with a final newline, every way of cutting the stream',
               why='the reader is a goto coroutine with no place for loop contracts and the real window (16 MiB / 16384 lines / 4 KiB reads) is beyond symbolic reach; assumes the code is parametric in the three constants'))
