# src/ddiff.c (C06)
TU('ddiff', 'src/ddiff.c', SRC_CFLAGS + ['-Dmain=ddiff_main'], pre=[], post=['contracts/ddiff.contracts.h'], defs=['L_CASC_TMAX (1LL << 27)'],
   native_link=['src/dt-io.c', 'src/dt-io-zone.c', 'src/alist.c', 'src/prchunk.c', 'lib/strops.c', 'lib/token.c', 'lib/dt-locale.c', 'lib/dt-core.c', 'lib/time-core.c', 'lib/date-core.c', 'lib/leaps.c', 'lib/tzraw.c', 'lib/tzmap.c', 'lib/dt-core-tz-glue.c', 'lib/version.c'])
FL = ['week', 'day', 'hour', 'min', 'sec']
for k in range(32):
    fx = {('in_%s' % n): str((k >> i) & 1) for i, n in enumerate(FL)}
    G('dd.precalc.%02d' % k, 'ddiff', 'precalc', ['C06'], ins=[('unsigned', 'in_' + n) for n in FL] + [('long long', 'in_dv')], fix=fx,
      setup='durfmt_t f = {0}; f.has_week = in_week; f.has_day = in_day; f.has_hour = in_hour; f.has_min = in_min; f.has_sec = in_sec; '
            'struct dt_dtdur_s dur = {(dt_dtdurtyp_t)DT_DURUNK}; dur.durtyp = DT_DURS; dur.dv = in_dv;',
      call='precalc(f, dur)', ret='struct precalc_s', solvers=['cadical'], timeout=600, split='in_dv > -(1LL << 27) && in_dv < (1LL << 27)',
      bounded=dict(bound='|total| < 2^27 seconds (harness-level restriction; the contract itself is stated for |total| < 2^40)', why='the equivalence of two 64-bit division chains did not discharge beyond this range'),
      sweep={'in_dv': '(long long)(RND % (1ULL << 41)) - (1LL << 40)'})
for k in range(32):
    fx = {('in_%s' % n): str((k >> i) & 1) for i, n in enumerate(FL)}
    G('dd.L_cascade.%02d' % k, 'ddiff', 'L_cascade', ['C06'], ins=[('long long', 'in_T')] + [('int', 'in_' + n) for n in FL], fix=fx,
      call='L_cascade(in_T, in_week, in_day, in_hour, in_min, in_sec)', pre='1', post='1', direct=True, must=['L_cascade'], native=False, solvers=['cadical'], timeout=600,
      bounded=dict(bound='totals 0 <= T < 2^27 seconds (about 4.2 years)', why='64-bit multiply/divide identities beyond this range did not discharge on any back end'))

# C14: real-seconds durations through the cascade, seconds only (ddiff -f %rS) and all units
for k in (16, 31):
    fx = {('in_%s' % n): str((k >> i) & 1) for i, n in enumerate(FL)}
    G('dd.precalc.tai.%02d' % k, 'ddiff', 'precalc', ['C14'], ins=[('unsigned', 'in_' + n) for n in FL] + [('int', 'in_soft'), ('int', 'in_corr')], fix=fx,
      setup='durfmt_t f = {0}; f.has_week = in_week; f.has_day = in_day; f.has_hour = in_hour; f.has_min = in_min; f.has_sec = in_sec; '
            'struct dt_dtdur_s dur = {(dt_dtdurtyp_t)DT_DURUNK}; dur.durtyp = DT_DURS; dur.tai = 1; dur.soft = in_soft; dur.corr = in_corr;',
      call='precalc(f, dur)', ret='struct precalc_s', solvers=['cadical'], timeout=600, split='in_soft > -(1 << 27) && in_soft < (1 << 27)',
      bounded=dict(bound='|UTC difference| < 2^27 seconds (harness-level restriction)', why='64-bit division chains beyond this range did not discharge'),
      sweep={'in_soft': '(int)(RND % (1U << 31)) - (1 << 30)', 'in_corr': '(int)(RND % 60) - 30'})

# the same obligation in two narrow windows far above the main bound (2^31 and 2^32 seconds: where a 32-bit intermediate would wrap)
for nm, lo in (('p31', '(1LL << 31)'), ('p32', '(1LL << 32)'), ('m31', '(-(1LL << 31) - (1LL << 20))')):
    for k in (16, 31):
        fx = {('in_%s' % n): str((k >> i) & 1) for i, n in enumerate(FL)}
        G('dd.precalc.hi.%s.%02d' % (nm, k), 'ddiff', 'precalc', ['C06'], ins=[('unsigned', 'in_' + n) for n in FL] + [('long long', 'in_dv')], fix=fx,
          setup='durfmt_t f = {0}; f.has_week = in_week; f.has_day = in_day; f.has_hour = in_hour; f.has_min = in_min; f.has_sec = in_sec; '
                'struct dt_dtdur_s dur = {(dt_dtdurtyp_t)DT_DURUNK}; dur.durtyp = DT_DURS; dur.dv = in_dv;',
          call='precalc(f, dur)', ret='struct precalc_s', solvers=['cadical'], timeout=600, split='in_dv >= %s && in_dv < %s + (1LL << 20)' % (lo, lo),
          bounded=dict(bound='totals in a window of 2^20 seconds starting at %s' % lo, why='see dd.precalc.*: the full range does not discharge'),
          sweep={'in_dv': '(long long)(RND % (1ULL << 41)) - (1LL << 40)'})

# C06: ltostr prints the value (windows of the argument: small values, around +-2^31, around 2^32, around 10^12)
for nm, lo, hi in (('small', '-(1L << 20)', '(1L << 20)'), ('p31', '(1L << 31) - 1024', '(1L << 31) + (1L << 19)'), ('m31', '-(1L << 31) - (1L << 19)', '-(1L << 31) + 1024'),
                   ('p32', '(1L << 32) - 1024', '(1L << 32) + (1L << 19)'), ('m32', '-(1L << 32) - (1L << 19)', '-(1L << 32) + 1024'), ('e12', '1000000000000L - 1024', '1000000000000L + (1L << 19)')):
    G('dd.L_ltostr.' + nm, 'ddiff', 'L_ltostr', ['C06'], ins=[('long', 'in_v')], call='L_ltostr(in_v)', pre='1', post='1', split='in_v >= %s && in_v < %s' % (lo, hi),
      direct=True, must=['L_ltostr'], native=False, solvers=['cadical'], timeout=600, unwind=24,
      bounded=dict(bound='values in [%s, %s)' % (lo, hi), why='64-bit division chains: narrow windows discharge, the full range does not'))
