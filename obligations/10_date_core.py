# obligation groups for /repo/lib/date-core.c (incl. the calendar files it #includes)
TU('date-core', 'lib/date-core.c', LIB_CFLAGS,
   pre=['vf/snprintf_stub.h', 'spec/greg.h', 'spec/iso.h', 'contracts/date-core.loops.h'],
   post=['contracts/date-core.contracts.h', 'contracts/date-core.arith.h', 'contracts/date-core.more.h', 'contracts/date-core.strf.h'],
   native_link=['lib/strops.c', 'lib/token.c', 'lib/dt-locale.c', 'lib/dt-core.c', 'lib/time-core.c', 'lib/leaps.c', 'lib/tzraw.c', 'lib/dt-core-tz-glue.c'],
   # non-const static lookup tables read by functions verified in direct mode (dfcc havocs statics):
   # (file, identifier) -- the driver checks on every run that they are never written
   static_tables=[('lib/yd.c', '__mon_yday'), ('lib/ymcw.c', 'ycum'), ('lib/bizda.c', 'tbl')])

DATE = ['C01']
U = 'unsigned int'

G('dc.__leapp', 'date-core', '__leapp', DATE, ins=[(U, 'in_y')], call='__leapp(in_y)', ret='bool', solvers=['cvc5', 'z3', 'cadical'])
G('dc.__md_get_yday', 'date-core', '__md_get_yday', DATE, ins=[(U, 'in_year'), (U, 'in_mon'), (U, 'in_dom')],
  call='__md_get_yday(in_year, in_mon, in_dom)', ret=U, direct=True,
  sweep={'in_mon': 'RND % 16', 'in_dom': 'RND % 70', 'in_year': '1590 + RND % 2520'})
G('dc.__get_mdays', 'date-core', '__get_mdays', DATE, ins=[(U, 'in_y'), (U, 'in_m')],
  call='__get_mdays(in_y, in_m)', ret=U, replace=['__md_get_yday'],
  sweep={'in_m': 'RND % 16', 'in_y': '1590 + RND % 2520'})
G('dc.__get_ydays', 'date-core', '__get_ydays', DATE, ins=[(U, 'in_y')], call='__get_ydays(in_y)', ret=U, replace=['__leapp'])
G('dc.__yday_get_md', 'date-core', '__yday_get_md', DATE, ins=[(U, 'in_year'), (U, 'in_doy')],
  call='__yday_get_md(in_year, in_doy)', ret='struct __md_s', replace=['__leapp'],
  sweep={'in_doy': 'RND % 370', 'in_year': '1590 + RND % 2520'})
G('dc.__get_jan01_wday', 'date-core', '__get_jan01_wday', DATE, ins=[(U, 'in_year')],
  call='__get_jan01_wday(in_year)', ret='dt_dow_t', solvers=['cvc5', 'cadical', 'z3'],
  sweep={'in_year': '1590 + RND % 2520'})
G('dc.__get_m01_wday', 'date-core', '__get_m01_wday', DATE, ins=[(U, 'in_year'), (U, 'in_mon')],
  call='__get_m01_wday(in_year, in_mon)', ret='dt_dow_t', replace=['__get_jan01_wday', '__md_get_yday'],
  solvers=['cvc5', 'cadical', 'z3'], sweep={'in_mon': 'RND % 16', 'in_year': '1590 + RND % 2520'})
G('dc.__get_dom_wday', 'date-core', '__get_dom_wday', DATE, ins=[(U, 'in_year'), (U, 'in_mon'), (U, 'in_dom')],
  call='__get_dom_wday(in_year, in_mon, in_dom)', ret='dt_dow_t', replace=['__get_jan01_wday', '__md_get_yday'],
  solvers=['cvc5', 'cadical', 'z3'], sweep={'in_mon': 'RND % 16', 'in_dom': 'RND % 64', 'in_year': '1590 + RND % 2520'})
G('dc.__get_jan01_yday_dow', 'date-core', '__get_jan01_yday_dow', DATE, ins=[(U, 'in_yd'), (U, 'in_w')],
  call='__get_jan01_yday_dow(in_yd, (dt_dow_t)in_w)', ret='dt_dow_t', sweep={'in_yd': 'RND % 410', 'in_w': 'RND % 8'})
G('dc.__jan00_daisy', 'date-core', '__jan00_daisy', DATE, ins=[(U, 'in_year')], call='__jan00_daisy(in_year)', ret='dt_daisy_t',
  solvers=['cvc5', 'cadical', 'z3'], sweep={'in_year': '1590 + RND % 2520'})
G('dc.__daisy_get_wday', 'date-core', '__daisy_get_wday', DATE, ins=[('dt_daisy_t', 'in_d')], call='__daisy_get_wday(in_d)', ret='dt_dow_t',
  solvers=['cvc5', 'cadical', 'z3'])
G('dc.__daisy_get_year', 'date-core', '__daisy_get_year', DATE, ins=[('dt_daisy_t', 'in_d')], call='__daisy_get_year(in_d)', ret=U,
  replace=['__jan00_daisy'], solvers=['cvc5', 'cadical', 'z3'], sweep={'in_d': 'RND % 911300'})
G('dc.__ymd_to_daisy', 'date-core', '__ymd_to_daisy', DATE, ins=[('uint32_t', 'in_u')], setup='dt_ymd_t d; d.u = in_u;',
  call='__ymd_to_daisy(d)', ret='dt_daisy_t', solvers=['cvc5', 'cadical', 'z3'], timeout=400)
for i in range(16):
    lo, hi = i * 56955 + 1, min((i + 1) * 56955, 911280)
    G('dc.__daisy_to_ymd.%02d' % i, 'date-core', '__daisy_to_ymd', DATE, ins=[('dt_daisy_t', 'in_n')], call='__daisy_to_ymd(in_n)',
      ret='dt_ymd_t', split='in_n >= %d && in_n <= %d' % (lo, hi), solvers=['cadical', 'cvc5'], timeout=600,
      sweep={'in_n': 'RND % 911300'})

# ------------------------------------------------------------------ C01 converters
YMD_IN = dict(ins=[('uint32_t', 'in_u')], setup='dt_ymd_t d; d.u = in_u;', sweep={'in_u': '((1598 + RND % 2500) << 10) | ((RND % 14) << 6) | (RND % 33)'})
YD_IN = dict(ins=[('uint32_t', 'in_u')], setup='dt_yd_t d; d.u = in_u;', sweep={'in_u': '((1598 + RND % 2500) << 16) | (RND % 368)'})
YMCW_IN = dict(ins=[('uint32_t', 'in_u')], setup='dt_ymcw_t d; d.u = in_u;', sweep={'in_u': '((1598 + RND % 2500) << 10) | ((RND % 14) << 6) | ((RND % 7) << 3) | (RND % 8)'})
YWD_IN = dict(ins=[('uint32_t', 'in_u')], setup='dt_ywd_t d; d.u = in_u;', sweep={'in_u': '((1598 + RND % 2500) << 13) | ((RND % 55) << 6) | ((RND % 8) << 3) | (RND % 8)'})
DAISY_IN = dict(ins=[('dt_daisy_t', 'in_n')], sweep={'in_n': 'RND % 911300'})
SV = ['cadical']
ALL1 = [('all', '1')]
Y8 = ALL1
def wsplit(yexpr):
    return [('w%d' % k, '(%s) >= 1601 && (%s) <= 4096 && S_J01WD((int)(%s)) == %d' % (yexpr, yexpr, yexpr, k)) for k in range(1, 8)]
W7 = ALL1
def dsplit(var, n=4):
    step = (911280 + n - 1) // n
    return [('%02d' % i, '%s >= %d && %s <= %d' % (var, i * step + 1, var, min((i + 1) * step, 911280))) for i in range(n)]

G('dc.__ymd_get_yday', 'date-core', '__ymd_get_yday', DATE, call='__ymd_get_yday(d)', ret=U, replace=['__md_get_yday'], **YMD_IN)
GS('dc.__ymd_get_wday', 'date-core', '__ymd_get_wday', DATE, Y8, call='__ymd_get_wday(d)', ret='dt_dow_t', replace=['__get_dom_wday'], solvers=SV, **YMD_IN)
G('dc.__ymd_get_count', 'date-core', '__ymd_get_count', DATE, call='__ymd_get_count(d)', ret=U, **YMD_IN)
GS('dc.__ymd_to_ymcw', 'date-core', '__ymd_to_ymcw', DATE, Y8, call='__ymd_to_ymcw(d)', ret='dt_ymcw_t', replace=['__ymd_get_wday', '__ymd_get_count'], solvers=SV, **YMD_IN)
GS('dc.__ymd_to_ywd', 'date-core', '__ymd_to_ywd', DATE, [('all', '1')], call='__ymd_to_ywd(d)', ret='dt_ywd_t', replace=['__ymd_get_wday', '__ymd_get_yday', '__make_ywd_c'], solvers=SV, **YMD_IN)
G('dc.__ymd_to_yd', 'date-core', '__ymd_to_yd', DATE, call='__ymd_to_yd(d)', ret='dt_yd_t', replace=['__ymd_get_yday'], solvers=SV, **YMD_IN)

GS('dc.__yd_get_wday', 'date-core', '__yd_get_wday', DATE, Y8, call='__yd_get_wday(d)', ret='dt_dow_t', replace=['__get_jan01_wday'], solvers=SV, **YD_IN)
G('dc.__yd_get_md', 'date-core', '__yd_get_md', DATE, call='__yd_get_md(d)', ret='struct __md_s', replace=['__yday_get_md'], solvers=SV, **YD_IN)
G('dc.__yd_to_ymd', 'date-core', '__yd_to_ymd', DATE, call='__yd_to_ymd(d)', ret='dt_ymd_t', replace=['__yd_get_md'], solvers=SV, **YD_IN)
G('dc.__yd_to_daisy', 'date-core', '__yd_to_daisy', DATE, call='__yd_to_daisy(d)', ret='dt_daisy_t', replace=['__jan00_daisy'], solvers=SV, **YD_IN)
GS('dc.__yd_to_ymcw', 'date-core', '__yd_to_ymcw', DATE, Y8, call='__yd_to_ymcw(d)', ret='dt_ymcw_t', replace=['__yd_get_md', '__yd_get_wday'], solvers=SV, **YD_IN)
GS('dc.__yd_to_ywd', 'date-core', '__yd_to_ywd', DATE, Y8, call='__yd_to_ywd(d)', ret='dt_ywd_t', replace=['__yd_get_wday', '__yd_get_wcnt_abs', '__make_ywd_c'], solvers=SV, **YD_IN)
G('dc.__yd_get_wcnt_abs', 'date-core', '__yd_get_wcnt_abs', DATE, call='__yd_get_wcnt_abs(d)', ret='int', **YD_IN)
GS('dc.__yd_get_wcnt_iso', 'date-core', '__yd_get_wcnt_iso', DATE, Y8, call='__yd_get_wcnt_iso(d)', ret='int', replace=['__get_jan01_wday', '__leapp'], solvers=SV, **YD_IN)
GS('dc.__yd_get_wcnt', 'date-core', '__yd_get_wcnt', DATE, Y8, ins=[('uint32_t', 'in_u'), (U, 'in_w')], setup='dt_yd_t d; d.u = in_u;',
   call='__yd_get_wcnt(d, (dt_dow_t)in_w)', ret='int', replace=['__get_jan01_wday'], solvers=SV)

GS('dc.__get_mcnt', 'date-core', '__get_mcnt', DATE, ALL1, ins=[(U, 'in_y'), (U, 'in_m'), (U, 'in_w')],
   call='__get_mcnt(in_y, in_m, (dt_dow_t)in_w)', ret=U, replace=['__get_m01_wday', '__get_mdays'], solvers=SV)
GS('dc.__ymcw_get_mday', 'date-core', '__ymcw_get_mday', DATE, Y8, call='__ymcw_get_mday(d)', ret=U, replace=['__get_m01_wday', '__get_mdays'], solvers=SV, **YMCW_IN)
GS('dc.__ymcw_get_yday', 'date-core', '__ymcw_get_yday', DATE, Y8, call='__ymcw_get_yday(d)', ret=U, direct=True, solvers=SV, **YMCW_IN)
G('dc.__ymcw_to_ymd', 'date-core', '__ymcw_to_ymd', DATE, call='__ymcw_to_ymd(d)', ret='dt_ymd_t', replace=['__ymcw_get_mday'], solvers=SV, **YMCW_IN)
GS('dc.__ymcw_to_daisy', 'date-core', '__ymcw_to_daisy', DATE, Y8, call='__ymcw_to_daisy(d)', ret='dt_daisy_t', replace=['__ymcw_get_mday', '__jan00_daisy', '__md_get_yday'], solvers=SV, **YMCW_IN)
GS('dc.__ymcw_to_yd', 'date-core', '__ymcw_to_yd', DATE, Y8, call='__ymcw_to_yd(d)', ret='dt_yd_t', replace=['__ymcw_get_mday', '__md_get_yday'], solvers=SV, **YMCW_IN)
GS('dc.__ymcw_to_ywd', 'date-core', '__ymcw_to_ywd', DATE, W7, call='__ymcw_to_ywd(d)', ret='dt_ywd_t', replace=['__ymcw_get_yday', '__make_ywd_c'], solvers=SV, **YMCW_IN)

G('dc.__ywd_get_jan01_wday', 'date-core', '__ywd_get_jan01_wday', DATE, call='__ywd_get_jan01_wday(d)', ret='dt_dow_t', **YWD_IN)
G('dc.__ywd_get_jan01_hang', 'date-core', '__ywd_get_jan01_hang', DATE, ins=[(U, 'in_j')], call='__ywd_get_jan01_hang((dt_dow_t)in_j)', ret='int')
GS('dc.__get_isowk', 'date-core', '__get_isowk', DATE, ALL1, ins=[(U, 'in_y')], call='__get_isowk(in_y)', ret=U, solvers=SV)
GS('dc.__get_z31wk', 'date-core', '__get_z31wk', DATE, ALL1, ins=[(U, 'in_y')], call='__get_z31wk(in_y)', ret=U, solvers=SV)
GS('dc.__make_ywd_yd_dow', 'date-core', '__make_ywd_yd_dow', DATE, ALL1, ins=[(U, 'in_y'), ('int', 'in_yd'), (U, 'in_dow')],
   call='__make_ywd_yd_dow(in_y, in_yd, (dt_dow_t)in_dow)', ret='dt_ywd_t',
   replace=['__get_jan01_yday_dow', '__ywd_get_jan01_hang', '__get_isowk', '__leapp'], solvers=SV)
GS('dc.__make_ywd_c', 'date-core', '__make_ywd_c', DATE, ALL1, ins=[(U, 'in_y'), (U, 'in_c'), (U, 'in_w'), (U, 'in_cc')],
   call='__make_ywd_c(in_y, in_c, (dt_dow_t)in_w, in_cc)', ret='dt_ywd_t',
   replace=['__get_jan01_wday', '__ywd_get_jan01_hang', '__get_isowk', '__leapp'], solvers=SV)
GS('dc.__ywd_get_yday', 'date-core', '__ywd_get_yday', DATE, Y8, call='__ywd_get_yday(d)', ret='int', solvers=SV, **YWD_IN)
GS('dc.__ywd_get_year', 'date-core', '__ywd_get_year', DATE, Y8, call='__ywd_get_year(d)', ret=U,
   replace=['__ywd_get_jan01_wday', '__get_z31wk', '__leapp'], solvers=SV, **YWD_IN)
GS('dc.__ywd_get_md', 'date-core', '__ywd_get_md', DATE, Y8, call='__ywd_get_md(d)', ret='struct __md_s', replace=['__ywd_get_yday', '__leapp'], solvers=SV, **YWD_IN)
GS('dc.__ywd_to_ymd', 'date-core', '__ywd_to_ymd', DATE, Y8, call='__ywd_to_ymd(d)', ret='dt_ymd_t', replace=['__ywd_get_year', '__ywd_get_md'], solvers=SV, **YWD_IN)
GS('dc.__ywd_to_ymcw', 'date-core', '__ywd_to_ymcw', DATE, Y8, call='__ywd_to_ymcw(d)', ret='dt_ymcw_t', replace=['__ywd_get_year', '__ywd_get_md'], solvers=SV, **YWD_IN)
GS('dc.__ywd_to_daisy', 'date-core', '__ywd_to_daisy', DATE, Y8, call='__ywd_to_daisy(d)', ret='dt_daisy_t', replace=['__jan00_daisy', '__ywd_get_yday'], solvers=SV, **YWD_IN)
GS('dc.__ywd_to_yd', 'date-core', '__ywd_to_yd', DATE, Y8, call='__ywd_to_yd(d)', ret='dt_yd_t', replace=['__ywd_get_year', '__ywd_get_yday', '__get_ydays'], solvers=SV, **YWD_IN)

GS('dc.__daisy_to_ymcw', 'date-core', '__daisy_to_ymcw', DATE, dsplit('in_n'), call='__daisy_to_ymcw(in_n)', ret='dt_ymcw_t',
   replace=['__daisy_to_ymd', '__ymd_get_count', '__daisy_get_wday'], solvers=SV, **DAISY_IN)
GS('dc.__daisy_to_ywd', 'date-core', '__daisy_to_ywd', DATE, dsplit('in_n'), call='__daisy_to_ywd(in_n)', ret='dt_ywd_t',
   replace=['__daisy_get_year', '__jan00_daisy', '__make_ywd_yd_dow'], solvers=SV, **DAISY_IN)
GS('dc.__daisy_to_yd', 'date-core', '__daisy_to_yd', DATE, dsplit('in_n'), call='__daisy_to_yd(in_n)', ret='dt_yd_t',
   replace=['__jan00_daisy'], solvers=SV, **DAISY_IN)
for f, t in (('__daisy_to_ldn', 'dt_ldn_t'), ('__daisy_to_mdn', 'dt_mdn_t'), ('__ldn_to_daisy', 'dt_daisy_t'), ('__mdn_to_daisy', 'dt_daisy_t')):
    G('dc.' + f, 'date-core', f, DATE, ins=[('uint32_t', 'in_n')], call='%s(in_n)' % f, ret=t)
G('dc.__daisy_to_jdn', 'date-core', '__daisy_to_jdn', DATE, ins=[('uint32_t', 'in_n')], call='__daisy_to_jdn(in_n)', ret='dt_jdn_t', solvers=['cadical', 'z3'])
G('dc.__jdn_to_daisy', 'date-core', '__jdn_to_daisy', DATE, ins=[('float', 'in_f')], call='__jdn_to_daisy(in_f)', ret='dt_daisy_t', solvers=['cadical', 'z3'],
  sweep={'in_f': '(float)(RND % 4000000) + 0.5f'})

D_IN = dict(ins=[(U, 'in_typ'), ('uint32_t', 'in_u')], setup='struct dt_d_s d = {DT_DUNK}; d.typ = (dt_dtyp_t)in_typ; d.u = in_u;',
            sweep={'in_typ': 'RND % 12'})
CONV_LEAVES = ['__ymd_to_daisy', '__ymcw_to_daisy', '__ywd_to_daisy', '__yd_to_daisy', '__ldn_to_daisy', '__mdn_to_daisy',
               '__ymcw_to_ymd', '__daisy_to_ymd', '__ywd_to_ymd', '__yd_to_ymd', '__ymd_to_ymcw', '__daisy_to_ymcw', '__ywd_to_ymcw', '__yd_to_ymcw',
               '__ymd_to_ywd', '__ymcw_to_ywd', '__daisy_to_ywd', '__yd_to_ywd', '__ymd_to_yd', '__daisy_to_yd', '__ymcw_to_yd', '__ywd_to_yd']
TSPLIT = [(n, {'in_typ': n}) for n in ('DT_YMD', 'DT_YMCW', 'DT_YWD', 'DT_YD', 'DT_DAISY', 'DT_LDN', 'DT_MDN')]
UNR = lambda *fs: ['%s/UNREACH_%s' % (f, f) for f in fs]
def leaves(x):
    return [l for l in CONV_LEAVES if l.endswith('_to_' + x)] + ['__ldn_to_daisy', '__mdn_to_daisy']
GS('dc.dt_conv_to_daisy', 'date-core', 'dt_conv_to_daisy', DATE, TSPLIT, call='dt_conv_to_daisy(d)', ret='dt_daisy_t', replace=sorted(set(leaves('daisy'))) + UNR('__bizda_to_daisy', '__ummulqura_to_ldn', '__jdn_to_daisy'), solvers=SV, **D_IN)
GS('dc.dt_conv_to_ymd', 'date-core', 'dt_conv_to_ymd', DATE, TSPLIT, call='dt_conv_to_ymd(d)', ret='dt_ymd_t', replace=sorted(set(leaves('ymd'))) + UNR('__bizda_to_ymd', '__ummulqura_to_ldn', '__jdn_to_daisy'), solvers=SV, **D_IN)
GS('dc.dt_conv_to_ymcw', 'date-core', 'dt_conv_to_ymcw', DATE, TSPLIT, call='dt_conv_to_ymcw(d)', ret='dt_ymcw_t', replace=sorted(set(leaves('ymcw'))) + UNR('__bizda_to_ymcw', '__ummulqura_to_ldn', '__jdn_to_daisy'), solvers=SV, **D_IN)
GS('dc.dt_conv_to_ywd', 'date-core', 'dt_conv_to_ywd', DATE, TSPLIT, call='dt_conv_to_ywd(d)', ret='dt_ywd_t', replace=sorted(set(leaves('ywd'))) + UNR('__bizda_to_ywd', '__ummulqura_to_ldn', '__jdn_to_daisy'), solvers=SV, **D_IN)
GS('dc.dt_conv_to_yd', 'date-core', 'dt_conv_to_yd', DATE, TSPLIT, call='dt_conv_to_yd(d)', ret='dt_yd_t', replace=sorted(set(leaves('yd'))) + UNR('__ummulqura_to_ldn', '__jdn_to_daisy'), solvers=SV, **D_IN)
for t in ('DT_YMD', 'DT_YMCW', 'DT_YWD', 'DT_YD', 'DT_DAISY', 'DT_LDN', 'DT_MDN'):
    G('dc.dt_dfixup.' + t[3:], 'date-core', 'dt_dfixup', ['C01', 'C04'], ins=[(U, 'in_typ'), ('uint32_t', 'in_u')], fix={'in_typ': t},
      setup='struct dt_d_s d = {DT_DUNK}; d.typ = (dt_dtyp_t)in_typ; d.u = in_u;', call='dt_dfixup(d)', ret='struct dt_d_s',
      replace=['__ymd_fixup', '__ymcw_fixup', '__ywd_fixup', '__yd_fixup'] + UNR('__bizda_fixup', '__ummulqura_fixup'), solvers=SV, sweep={'in_u': 'RND'})
TYPS = ('DT_YMD', 'DT_YMCW', 'DT_YWD', 'DT_YD', 'DT_DAISY', 'DT_LDN', 'DT_MDN')
QUICK_PAIRS = {('DT_YWD', 'DT_YMD'), ('DT_YMD', 'DT_YWD'), ('DT_DAISY', 'DT_YMCW'), ('DT_YMCW', 'DT_DAISY'), ('DT_YMD', 'DT_YD'), ('DT_YD', 'DT_LDN'), ('DT_MDN', 'DT_YMD')}
for t in TYPS:
    for n in TYPS:
        # dt_dconv = dt_dfixup (inlined here, its leaves replaced) + dispatch to dt_conv_to_* (replaced by contract)
        G('dc.dt_dconv.%s.%s' % (t[3:], n[3:]), 'date-core', 'dt_dconv', DATE, ins=[(U, 'in_tgt'), (U, 'in_typ'), ('uint32_t', 'in_u')],
          fix={'in_tgt': t, 'in_typ': n},
          setup='struct dt_d_s d = {DT_DUNK}; d.typ = (dt_dtyp_t)in_typ; d.u = in_u;', call='dt_dconv((dt_dtyp_t)in_tgt, d)', ret='struct dt_d_s',
          replace=['__get_mdays', '__get_mcnt', '__get_isowk', '__get_ydays', 'dt_conv_to_daisy', 'dt_conv_to_ymd', 'dt_conv_to_ymcw', 'dt_conv_to_ywd', 'dt_conv_to_yd',
                   '__daisy_to_ldn', '__daisy_to_mdn'] + UNR('__daisy_to_jdn', 'dt_conv_to_bizda', 'dt_conv_to_ummulqura', '__bizda_fixup', '__ummulqura_fixup'),
          solvers=SV, timeout=600, tier='quick' if (t, n) in QUICK_PAIRS else 'thorough', sweep={'in_u': 'RND'})

# field getters on the sum type (contracts in contracts/date-core.public.h)
for t in ('DT_YMD', 'DT_YMCW', 'DT_YWD', 'DT_DAISY'):
    G('dc.dt_get_wday.' + t[3:], 'date-core', 'dt_get_wday', ['C01'], ins=[(U, 'in_typ'), ('uint32_t', 'in_u')], fix={'in_typ': t},
      setup='struct dt_d_s d = {DT_DUNK}; d.typ = (dt_dtyp_t)in_typ; d.u = in_u;', call='dt_get_wday(d)', ret='dt_dow_t',
      replace=['__ymd_get_wday', '__daisy_get_wday'] + UNR('__bizda_get_wday'), solvers=SV, sweep={'in_u': 'RND'})
