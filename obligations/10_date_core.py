# obligation groups for /repo/lib/date-core.c (incl. the calendar files it #includes)
TU('date-core', 'lib/date-core.c', LIB_CFLAGS,
   pre=['spec/greg.h', 'spec/iso.h', 'contracts/date-core.loops.h'],
   post=['contracts/date-core.contracts.h'],
   native_link=['lib/strops.c', 'lib/token.c', 'lib/dt-locale.c'],
   # non-const static lookup tables read by functions verified in direct mode (dfcc havocs statics):
   # (file, identifier) -- the driver checks on every run that they are never written
   static_tables=[('lib/yd.c', '__mon_yday'), ('lib/ymcw.c', 'ycum'), ('lib/bizda.c', 'tbl')])

DATE = ['C01', 'C02', 'C03', 'C04', 'C05', 'C07', 'C08']
U = 'unsigned int'

G('dc.__leapp', 'date-core', '__leapp', DATE, ins=[(U, 'in_y')], call='__leapp(in_y)', ret='bool', solvers=['cvc5', 'z3', 'cadical'])
G('dc.__md_get_yday', 'date-core', '__md_get_yday', DATE, ins=[(U, 'in_year'), (U, 'in_mon'), (U, 'in_dom')],
  call='__md_get_yday(in_year, in_mon, in_dom)', ret=U, direct=True,
  sweep={'in_mon': 'RND % 16', 'in_dom': 'RND % 70', 'in_year': '1590 + RND % 2520'})
G('dc.__get_mdays', 'date-core', '__get_mdays', DATE, ins=[(U, 'in_y'), (U, 'in_m')],
  call='__get_mdays(in_y, in_m)', ret=U, replace=['__md_get_yday'],
  sweep={'in_m': 'RND % 16', 'in_y': '1590 + RND % 2520'})
G('dc.__get_ydays', 'date-core', '__get_ydays', DATE, ins=[(U, 'in_y')], call='__get_ydays(in_y)', ret=U, replace=['__leapp'])
G('dc.__yday_get_md', 'date-core', '__yday_get_md', DATE, ins=[(U, 'in_year'), (U, 'in_doy')],
  call='__yday_get_md(in_year, in_doy)', ret='struct __md_s', replace=['__leapp'],
  sweep={'in_doy': 'RND % 370', 'in_year': '1590 + RND % 2520'})
G('dc.__get_jan01_wday', 'date-core', '__get_jan01_wday', DATE, ins=[(U, 'in_year')],
  call='__get_jan01_wday(in_year)', ret='dt_dow_t', solvers=['cvc5', 'cadical', 'z3'],
  sweep={'in_year': '1590 + RND % 2520'})
G('dc.__get_m01_wday', 'date-core', '__get_m01_wday', DATE, ins=[(U, 'in_year'), (U, 'in_mon')],
  call='__get_m01_wday(in_year, in_mon)', ret='dt_dow_t', replace=['__get_jan01_wday', '__md_get_yday'],
  solvers=['cvc5', 'cadical', 'z3'], sweep={'in_mon': 'RND % 16', 'in_year': '1590 + RND % 2520'})
G('dc.__get_dom_wday', 'date-core', '__get_dom_wday', DATE, ins=[(U, 'in_year'), (U, 'in_mon'), (U, 'in_dom')],
  call='__get_dom_wday(in_year, in_mon, in_dom)', ret='dt_dow_t', replace=['__get_jan01_wday', '__md_get_yday'],
  solvers=['cvc5', 'cadical', 'z3'], sweep={'in_mon': 'RND % 16', 'in_dom': 'RND % 64', 'in_year': '1590 + RND % 2520'})
G('dc.__get_jan01_yday_dow', 'date-core', '__get_jan01_yday_dow', DATE, ins=[(U, 'in_yd'), (U, 'in_w')],
  call='__get_jan01_yday_dow(in_yd, (dt_dow_t)in_w)', ret='dt_dow_t', sweep={'in_yd': 'RND % 410', 'in_w': 'RND % 8'})
G('dc.__jan00_daisy', 'date-core', '__jan00_daisy', DATE, ins=[(U, 'in_year')], call='__jan00_daisy(in_year)', ret='dt_daisy_t',
  solvers=['cvc5', 'cadical', 'z3'], sweep={'in_year': '1590 + RND % 2520'})
G('dc.__daisy_get_wday', 'date-core', '__daisy_get_wday', DATE, ins=[('dt_daisy_t', 'in_d')], call='__daisy_get_wday(in_d)', ret='dt_dow_t',
  solvers=['cvc5', 'cadical', 'z3'])
G('dc.__daisy_get_year', 'date-core', '__daisy_get_year', DATE, ins=[('dt_daisy_t', 'in_d')], call='__daisy_get_year(in_d)', ret=U,
  replace=['__jan00_daisy'], solvers=['cvc5', 'cadical', 'z3'], sweep={'in_d': 'RND % 911300'})
G('dc.__daisy_get_yday', 'date-core', '__daisy_get_yday', DATE, ins=[('dt_daisy_t', 'in_d')], call='__daisy_get_yday(in_d)', ret=U,
  replace=['__jan00_daisy', '__daisy_get_year'], solvers=['cvc5', 'cadical', 'z3'], sweep={'in_d': 'RND % 911300'})
G('dc.__ymd_to_daisy', 'date-core', '__ymd_to_daisy', DATE, ins=[('uint32_t', 'in_u')], setup='dt_ymd_t d; d.u = in_u;',
  call='__ymd_to_daisy(d)', ret='dt_daisy_t', solvers=['cvc5', 'cadical', 'z3'], timeout=400)
for i in range(16):
    lo, hi = i * 56955 + 1, min((i + 1) * 56955, 911280)
    G('dc.__daisy_to_ymd.%02d' % i, 'date-core', '__daisy_to_ymd', DATE, ins=[('dt_daisy_t', 'in_n')], call='__daisy_to_ymd(in_n)',
      ret='dt_ymd_t', split='in_n >= %d && in_n <= %d' % (lo, hi), solvers=['cadical', 'cvc5'], timeout=600,
      sweep={'in_n': 'RND % 911300'})
