# lib/dt-core.c
TU('dt-core', 'lib/dt-core.c', LIB_CFLAGS, defs=['VERIF_TU_DT_CORE 1'], pre=['contracts/dt-core.pre.h', 'spec/greg.h', 'spec/iso.h'], post=['contracts/dt-core.contracts.h'],
   native_link=['lib/strops.c', 'lib/token.c', 'lib/dt-locale.c', 'lib/time-core.c', 'lib/date-core.c', 'lib/leaps.c', 'lib/tzraw.c', 'lib/dt-core-tz-glue.c'])
U = 'unsigned int'
SV = ['cadical']
DT_IN = [(U, 'in_typ'), ('uint32_t', 'in_u'), (U, 'in_h'), (U, 'in_m'), (U, 'in_s')]
DT_SET = ('struct dt_dt_s d = {DT_UNK}; d.d.typ = (dt_dtyp_t)in_typ; d.d.u = in_u; d.sandwich = 1; d.t.typ = DT_HMS; '
          'd.t.hms.h = in_h; d.t.hms.m = in_m; d.t.hms.s = in_s;')
DT2_IN = [(U, 'in_typ2'), ('uint32_t', 'in_u2'), (U, 'in_h2'), (U, 'in_m2'), (U, 'in_s2')]
DT2_SET = (' struct dt_dt_s d2 = {DT_UNK}; d2.d.typ = (dt_dtyp_t)in_typ2; d2.d.u = in_u2; d2.sandwich = 1; d2.t.typ = DT_HMS; '
           'd2.t.hms.h = in_h2; d2.t.hms.m = in_m2; d2.t.hms.s = in_s2;')
SW = {'in_typ': 'RND % 12', 'in_typ2': 'RND % 12', 'in_h': 'RND % 25', 'in_m': 'RND % 61', 'in_s': 'RND % 61', 'in_h2': 'RND % 25', 'in_m2': 'RND % 61', 'in_s2': 'RND % 61',
      'in_u': '134775 + RND % 40000', 'in_u2': '134775 + RND % 40000', 'in_dv': '(long long)(RND % 4000000) - 2000000', 'in_dt': '12 + RND % 3', 'in_sx': '(long long)(RND % 4000000000ULL) - 2000000000LL'}
P11 = ['C11']
GS('dtc.__sexy_to_daisy', 'dt-core', '__sexy_to_daisy', P11, [('neg', 'in_sx < 0'), ('p0', 'in_sx >= 0 && in_sx < (1LL << 32)'), ('p1', 'in_sx >= (1LL << 32) && in_sx < (1LL << 34)'), ('p2', 'in_sx >= (1LL << 34)')], ins=[('long long', 'in_sx')], call='__sexy_to_daisy(in_sx)', ret='struct dt_dt_s',
  solvers=['cadical'], timeout=1500, sweep=SW)
ATYPS = ('DT_YMD', 'DT_YD', 'DT_YWD', 'DT_DAISY', 'DT_LDN', 'DT_MDN')
for t in ATYPS:
    if t != 'DT_YWD':
      G('dtc.__to_unix_epoch.' + t[3:], 'dt-core', '__to_unix_epoch', P11 + (['C20'] if t == 'DT_DAISY' else []), ins=DT_IN, fix={'in_typ': t}, setup=DT_SET, call='__to_unix_epoch(d)', ret='dt_ssexy_t',
      replace=['dt_conv_to_daisy', 'dt_get_base/UNREACH_dt_get_base'], solvers=SV, sweep=SW)
    G('dtc.dt_dtadd.hms.' + t[3:], 'dt-core', 'dt_dtadd', P11, ins=DT_IN + [(U, 'in_dt'), ('long long', 'in_dv')], fix={'in_typ': t},
      setup=DT_SET + ' struct dt_dtdur_s dur = {(dt_dtdurtyp_t)DT_DURUNK}; dur.durtyp = (dt_dtdurtyp_t)in_dt; dur.dv = in_dv;',
      call='dt_dtadd(d, dur)', ret='struct dt_dt_s', replace=['dt_tadd_s', 'dt_dadd'], solvers=['cadical'], timeout=1800, tier='thorough', optional=True, sweep=SW,
      needs={'dt_dadd': r'da\.dt_dadd\.D\.%s$' % t[3:]})
# the same obligation for steps of up to +-2^21 seconds (24 days): the 64-bit division identity step == 86400 * (step / 86400) + step % 86400
# that the full-range groups above need does not discharge within the quick budget, the narrow range does
for u, lim in (('H', 582), ('M', 34952), ('S', 2097152)):
    G('dtc.dt_dtadd.hms24d.' + u, 'dt-core', 'dt_dtadd', P11, ins=DT_IN + [(U, 'in_dt'), ('long long', 'in_dv')], fix={'in_typ': 'DT_DAISY', 'in_dt': 'DT_DUR' + u},
      split='in_dv >= -%d && in_dv <= %d' % (lim, lim),
      setup=DT_SET + ' struct dt_dtdur_s dur = {(dt_dtdurtyp_t)DT_DURUNK}; dur.durtyp = (dt_dtdurtyp_t)in_dt; dur.dv = in_dv;',
      call='dt_dtadd(d, dur)', ret='struct dt_dt_s', replace=['dt_tadd_s', 'dt_dadd'], solvers=['cadical'], timeout=800, sweep=SW, needs={'dt_dadd': r'da\.dt_dadd\.D\.DAISY$'},
      bounded=dict(bound='|step| <= 2^21 seconds (24 days), DAISY-typed date part (harness-level input restriction; the contract is stated for the whole range)',
                   why='the 64-bit identity step == 86400 * (step / 86400) + step % 86400 does not discharge over the full range within the quick budget; full range: thorough-tier dtc.dt_dtadd.hms.*'))
DTYPS = ('DT_YMD', 'DT_YD', 'DT_DAISY', 'DT_LDN', 'DT_MDN')
for t in DTYPS:
    G('dtc.dt_dtdiff.S.' + t[3:], 'dt-core', 'dt_dtdiff', P11 + ['C05'], ins=DT_IN + DT2_IN, fix={'in_typ': t, 'in_typ2': t}, setup=DT_SET + DT2_SET,
      call='dt_dtdiff(DT_DURS, d, d2)', ret='struct dt_dtdur_s', replace=['dt_tdiff_s', 'dt_ddiff'], solvers=['cadical'],
      timeout=800 if t in ('DT_DAISY', 'DT_YMD') else 1800, tier='quick' if t in ('DT_DAISY', 'DT_YMD') else 'thorough', optional=t not in ('DT_DAISY', 'DT_YMD'), sweep=SW,
      needs={'dt_ddiff': r'da\.dt_ddiff\.D\.%s\.%s$' % (t[3:], t[3:])})
    pass
# C14: real-seconds differences: index lookups in the generated leap table, then the correction slot
for t in ('DT_YMD', 'DT_DAISY'):
    G('dtc.leaps_before.' + t[3:], 'dt-core', 'leaps_before', ['C14'], ins=DT_IN + [(U, 'in_sw')], fix={'in_typ': t}, setup=DT_SET + ' d.sandwich = in_sw & 1;',
      call='leaps_before(d)', ret='zidx_t', replace=['leaps_before_ui32', 'leaps_before_si32/UNREACH_leaps_before_si32'], solvers=['cadical'], timeout=600, unwind=50,
      sweep=dict(SW, in_sw='RND'))
    G('dtc.dt_dtdiff.tai.' + t[3:], 'dt-core', 'dt_dtdiff', ['C14'], ins=DT_IN + DT2_IN, fix={'in_typ': t, 'in_typ2': t}, setup=DT_SET + DT2_SET,
      call='dt_dtdiff(DT_DURTAI, d, d2)', ret='struct dt_dtdur_s', replace=['dt_tdiff_s', 'dt_ddiff', 'leaps_before'], solvers=['cadical'], timeout=800, sweep=SW,
      needs={'dt_ddiff': r'da\.dt_ddiff\.D\.%s\.%s$' % (t[3:], t[3:]), 'leaps_before': r'\.%s$' % t[3:]})
for t in ('DT_YMD', 'DT_YD', 'DT_YWD', 'DT_DAISY', 'DT_YMCW'):
    G('dtc.dt_dtcmp.' + t[3:], 'dt-core', 'dt_dtcmp', ['C08', 'C11'], ins=DT_IN + DT2_IN, fix={'in_typ': t, 'in_typ2': t}, setup=DT_SET + DT2_SET,
      call='dt_dtcmp(d, d2)', ret='int', replace=['__ymcw_cmp'], solvers=['cadical'], timeout=900, sweep=SW)
DT1_IN = [(U, 'in_typ1'), ('uint32_t', 'in_u1'), (U, 'in_h1'), (U, 'in_m1'), (U, 'in_s1')]
DT1_SET = (' struct dt_dt_s d1 = {DT_UNK}; d1.d.typ = (dt_dtyp_t)in_typ1; d1.d.u = in_u1; d1.sandwich = 1; d1.t.typ = DT_HMS; '
           'd1.t.hms.h = in_h1; d1.t.hms.m = in_m1; d1.t.hms.s = in_s1;')
for t in ('DT_YMD', 'DT_YD', 'DT_YWD', 'DT_DAISY', 'DT_YMCW'):
    G('dtc.dt_dt_in_range_p.' + t[3:], 'dt-core', 'dt_dt_in_range_p', ['C08'], ins=DT_IN + DT1_IN + DT2_IN, fix={'in_typ': t, 'in_typ1': t, 'in_typ2': t}, setup=DT_SET + DT1_SET + DT2_SET,
      call='dt_dt_in_range_p(d, d1, d2)', ret='int', replace=['dt_dtcmp'], solvers=['cadical'], timeout=600 if t != 'DT_YMCW' else 1800,
      tier='quick' if t != 'DT_YMCW' else 'thorough', optional=(t == 'DT_YMCW'),   # ymcw: no answer within 600 s (three copies of the (year, yday) key of a ymcw value)
      sweep=dict(SW, in_typ1='RND % 12', in_u1='134775 + RND % 40000', in_h1='RND % 25', in_m1='RND % 61', in_s1='RND % 61'),
      needs={'dt_dtcmp': r'dtc\.dt_dtcmp\.%s$' % t[3:]})
for nm, dt in (('H', 'DT_DURH'), ('M', 'DT_DURM'), ('S', 'DT_DURS')):
    G('dtc.dt_dtadd.tonly.' + nm, 'dt-core', 'dt_dtadd', ['C11', 'C15'], ins=[(U, 'in_h'), (U, 'in_m'), (U, 'in_s'), (U, 'in_du'), (U, 'in_dt'), ('long long', 'in_dv')],
      fix={'in_dt': dt},
      setup='struct dt_dt_s d = {DT_UNK}; d.sandwich = 1; d.t.typ = DT_HMS; d.t.hms.h = in_h; d.t.hms.m = in_m; d.t.hms.s = in_s; d.d.u = in_du; '
            'struct dt_dtdur_s dur = {(dt_dtdurtyp_t)DT_DURUNK}; dur.durtyp = (dt_dtdurtyp_t)in_dt; dur.dv = in_dv;',
      call='dt_dtadd(d, dur)', ret='struct dt_dt_s', replace=['dt_tadd_s', 'dt_dadd/UNREACH_dt_dadd'], solvers=['cadical'], timeout=900, sweep=SW)
# C20: library-level facts about the clock / base
G('dtc.massage_strpdt.full', 'dt-core', 'massage_strpdt', ['C20'], body='\tstruct strpdt_s d;\n\tmassage_strpdt(d);', replace=['dt_get_base/UNREACH_dt_get_base'], native=False, solvers=['cadical'])
G('dtc.dt_get_base.set', 'dt-core', 'dt_get_base', ['C20'], body='\tdt_get_base();', replace=['dt_datetime/UNREACH_dt_datetime'], native=False, solvers=['cadical'])
LIBFILES = ['lib/date-core.c', 'lib/dt-core.c', 'lib/time-core.c', 'lib/strops.c', 'lib/token.c', 'lib/dt-locale.c', 'lib/leaps.c', 'lib/tzraw.c', 'lib/tzmap.c', 'lib/dt-core-tz-glue.c']
G('static.libdut.undefined', 'dt-core', 'libdut', ['C20'], kind='undefined', files=LIBFILES, native=False, reach=False, must=['undefined_function'],
  bounded=dict(bound='static fact about the call graph, not a behavioural proof obligation', why='listed separately so that it is never counted as a discharged proof obligation'),
  whitelist=['__assert_fail', '__errno_location', 'abort', 'close', 'free', 'fstat', 'getenv', 'gettimeofday', 'malloc', 'memchr', 'memcmp', 'memcpy', 'memset', 'mmap', 'munmap',
             'open', 'snprintf', 'strcasecmp', 'strchr', 'strcmp', 'strlen', 'strncasecmp', 'strtod', 'strtol', 'time'],
  note='supporting static fact (not a proof obligation about behaviour): libdut calls no libc time-zone / locale facility (localtime, tzset, setlocale, strftime, nl_langinfo ...); '
       'its only clock sources are time() and gettimeofday() (reached only through dt_get_base/dt_datetime, see the two contract groups) and its only environment access is getenv() in lib/tzmap.c / lib/dt-locale.c path lookup')
