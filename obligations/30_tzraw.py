# lib/tzraw.c  (C12 zone lookups, C13 cache, C14 virtual zones, C19 loader)
TU('tzraw', 'lib/tzraw.c', LIB_CFLAGS, pre=['spec/greg.h'], post=['contracts/tzraw.contracts.h'],
   native_link=['lib/leaps.c'])
TZ = ['C12', 'C13']
ZB = '\tstruct zif_s *z; stamp_t in_t; int in_min, in_max, in_n;\n'
G('tz.zif_trans', 'tzraw', 'zif_trans', TZ, body=ZB + '\tzif_trans(z, in_n);', native=False, timeout=600)
G('tz._zif_type', 'tzraw', '_zif_type', TZ, body=ZB + '\t_zif_type(z, in_n);', native=False, timeout=600)
G('tz._zif_troffs', 'tzraw', '_zif_troffs', TZ, body=ZB + '\t_zif_troffs(z, in_n);', replace=['_zif_type'], native=False, timeout=600)
G('tz.__find_trno', 'tzraw', '__find_trno', TZ, body=ZB + '\t__find_trno(z, in_t, in_min, in_max);', replace=['zif_trans'], native=False, timeout=1200,
  loopinv={'__find_trno': [dict(id=0, inv='0 <= min && min < max && max <= (int)z->ntr && z->trs[min] <= t && t < (max >= (int)z->ntr ? z->trs[z->ntr - 1] : z->trs[max])',
                                dec='max - min')]})
G('tz.__find_zrng', 'tzraw', '__find_zrng', TZ, body=ZB + '\t__find_zrng(z, in_t, in_min, in_max);', replace=['zif_trans', '__find_trno', '_zif_troffs'],
  native=False, timeout=1200)
UNR = lambda *fs: ['%s/UNREACH_%s' % (f, f) for f in fs]
G('tz.__offs', 'tzraw', '__offs', TZ, body=ZB + '\t__offs(z, in_t);', replace=['__find_zrng'] + UNR('__tai_offs', '__gps_offs'), native=False, timeout=1200)
G('tz.zif_local_time', 'tzraw', 'zif_local_time', TZ, body=ZB + '\tzif_local_time(z, in_t);', replace=['__offs'], native=False, timeout=600)
G('tz.__tai_offs', 'tzraw', '__tai_offs', ['C14'], ins=[('long long', 'in_t')], call='__tai_offs(in_t)', ret='stamp_t', replace=['leaps_before_si32'],
  unwind=40, timeout=600, sweep={'in_t': '(long long)(RND % 8000000000ULL) - 1000000000LL'})
G('tz.__gps_offs', 'tzraw', '__gps_offs', ['C14'], ins=[('long long', 'in_t')], call='__gps_offs(in_t)', ret='stamp_t', replace=['__tai_offs'],
  unwind=40, timeout=600, sweep={'in_t': '(long long)(RND % 8000000000ULL) - 1000000000LL'})
G('tz.L_leaptab', 'tzraw', 'L_leaptab', ['C14'], body='\tL_leaptab();', direct=True, must=['L_leaptab'], native=False, reach=False, unwind=40)

G('tz.zif_utc_time', 'tzraw', 'zif_utc_time', TZ, body=ZB + '\tzif_utc_time(z, in_t);', replace=['__offs'], native=False, timeout=1200, unwind=12)
# C19: the loader, bounded: all file images of <= ZIF_IMG_MAX bytes
TU('tzraw-loader', 'lib/tzraw.c', LIB_CFLAGS + ['-Dopen(f,...)=verif_open(f)', '-Dfstat(fd,st)=verif_fstat(fd,st)', '-Dmmap(a,len,...)=verif_mmap(len)',
                                                 '-Dmunmap(p,len)=verif_munmap(p,len)', '-Dclose(fd)=verif_close(fd)'],
   pre=['contracts/tzraw.loader.pre.h'], post=['contracts/tzraw.loader.h'])
# G('tzl.zif_open', ...) removed: CBMC runs out of memory (12 GB) on zif_open even for 56-byte images with header counts < 4
# (symbolic-size malloc + symbolic-length memcpy + three decode loops); see DESIGN.md, C19 is listed as not_applicable.
