# src/dseq.c (C15)
TU('dseq', 'src/dseq.c', SRC_CFLAGS + ['-Dmain=dseq_main'], pre=['spec/greg.h', 'spec/iso.h'], post=['contracts/dseq.contracts.h'])
G('ds.date_add.tonly', 'dseq', 'date_add', ['C15'], body='\tstruct dt_dt_s d; struct dt_dtdur_s *dur; size_t n;\n\tdate_add(d, dur, n);', replace=['dt_dtadd'], needs={'dt_dtadd': r'\.tonly\.'}, native=False,
  unwind=4, timeout=900,
  bounded=dict(bound='increment stacks of at most 2 components, each shorter than a day (loop over the stack unwound with unwinding assertion)', why='the sum over the stack has no closed form usable in a loop invariant without ghost state'))
