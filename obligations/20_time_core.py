# lib/time-core.c
TU('time-core', 'lib/time-core.c', LIB_CFLAGS, defs=['VERIF_TU_TIME_CORE 1'], pre=['spec/greg.h'], post=['contracts/time-core.contracts.h'],
   native_link=['lib/strops.c', 'lib/token.c', 'lib/dt-locale.c', 'lib/dt-core.c', 'lib/date-core.c', 'lib/leaps.c', 'lib/tzraw.c', 'lib/dt-core-tz-glue.c'])
TP = ['C11', 'C08']
T_IN = [('unsigned', 'in_h'), ('unsigned', 'in_m'), ('unsigned', 'in_s'), ('unsigned', 'in_ns')]
T_SET = 'struct dt_t_s t = {DT_TUNK}; t.typ = DT_HMS; t.hms.h = in_h; t.hms.m = in_m; t.hms.s = in_s; t.hms.ns = in_ns;'
T2_IN = [('unsigned', 'in_h2'), ('unsigned', 'in_m2'), ('unsigned', 'in_s2'), ('unsigned', 'in_ns2')]
T2_SET = ' struct dt_t_s t2 = {DT_TUNK}; t2.typ = DT_HMS; t2.hms.h = in_h2; t2.hms.m = in_m2; t2.hms.s = in_s2; t2.hms.ns = in_ns2;'
SW = {'in_h': 'RND % 25', 'in_m': 'RND % 61', 'in_s': 'RND % 61', 'in_h2': 'RND % 25', 'in_m2': 'RND % 61', 'in_s2': 'RND % 61',
      'in_ns': 'RND % 1000000000', 'in_ns2': 'RND % 1000000000', 'in_durs': '(int)(RND % 1300000) - 650000', 'in_corr': '0'}
GS('tc.divrem', 'time-core', 'divrem', TP, [(str(k), {'in_mod': str(k)}) for k in (86399, 86400, 86401)], ins=[('int', 'in_n'), ('unsigned', 'in_mod')], call='divrem(in_n, in_mod)', ret='struct divrem_s',
  solvers=['cadical', 'cvc5', 'z3'], sweep={'in_mod': '86399 + RND % 3', 'in_n': '(int)(RND % 1600000) - 800000'})
G('tc.dt_tadd_s', 'time-core', 'dt_tadd_s', TP, ins=T_IN + [('int', 'in_durs'), ('int', 'in_corr')], setup=T_SET, call='dt_tadd_s(t, in_durs, in_corr)',
  ret='struct dt_t_s', replace=['divrem'], solvers=['cadical', 'cvc5'], sweep=SW)
G('tc.dt_tdiff_s', 'time-core', 'dt_tdiff_s', TP, ins=T_IN + T2_IN, setup=T_SET + T2_SET, call='dt_tdiff_s(t, t2)', ret='int', sweep=SW, solvers=['cadical', 'cvc5', 'z3'])
G('tc.dt_tcmp', 'time-core', 'dt_tcmp', TP, ins=T_IN + T2_IN, setup=T_SET + T2_SET, call='dt_tcmp(t, t2)', ret='int', sweep=SW, solvers=['cadical', 'cvc5'])

# C09: 12-hour clock round trip through the real %I / %p printers, the real AM/PM parser and __guess_ttyp
G('tc.L_rt_ampm', 'time-core', 'L_rt_ampm', ['C09'], ins=[('unsigned', 'in_h'), ('unsigned', 'in_cap')], call='L_rt_ampm(in_h, in_cap)', pre='1', post='1', direct=True, must=['L_rt_ampm'],
  native=False, unwind=14, timeout=600)
