# C03 ... : arithmetic on the real lib/date-core.c (same TU 'date-core')
U = 'unsigned int'
ARITH = ['C03']
SV = ['cadical']
YMD_IN = dict(ins=[('uint32_t', 'in_u'), ('int', 'in_n')], setup='dt_ymd_t d; d.u = in_u;',
              sweep={'in_u': '((1598 + RND % 2500) << 10) | ((RND % 14) << 6) | (RND % 33)', 'in_n': '(int)(RND % 40000) - 20000'})
YD_IN = dict(ins=[('uint32_t', 'in_u'), ('int', 'in_n')], setup='dt_yd_t d; d.u = in_u;',
             sweep={'in_u': '((1598 + RND % 2500) << 16) | (RND % 368)', 'in_n': '(int)(RND % 40000) - 20000'})
YWD_IN = dict(ins=[('uint32_t', 'in_u'), ('int', 'in_n')], setup='dt_ywd_t d; d.u = in_u;',
              sweep={'in_u': '((1598 + RND % 2500) << 13) | ((RND % 55) << 6) | ((RND % 8) << 3) | (RND % 8)', 'in_n': '(int)(RND % 40000) - 20000'})

JINV = 'S_JAN00((int)y) + d == S_JAN00((int)__CPROVER_loop_entry(y)) + __CPROVER_loop_entry(d)'
G('da.__yd_fixup_d', 'date-core', '__yd_fixup_d', ARITH, ins=[(U, 'in_y'), ('int', 'in_d')], call='__yd_fixup_d(in_y, in_d)', ret='dt_yd_t',
  replace=['__get_ydays'], solvers=SV, timeout=900,
  loopinv={'__yd_fixup_d': [
      dict(id=0, inv='y >= 1602 && y <= 4095 && d < 1 && d >= -1000000 && ' + JINV + ' && S_JAN00((int)y) + d >= 1', dec='y'),
      dict(id=1, inv='y >= 1601 && y <= 4095 && d >= 1 && d <= 1000000 && ' + JINV + ' && S_JAN00((int)y) + d <= 911280', dec='d')]},
  sweep={'in_y': '1598 + RND % 2500', 'in_d': '(int)(RND % 40000) - 20000'})
G('da.__yd_add_d', 'date-core', '__yd_add_d', ARITH, call='__yd_add_d(d, in_n)', ret='dt_yd_t', replace=['__yd_fixup_d'], solvers=SV, **YD_IN)
G('da.__yd_add_w', 'date-core', '__yd_add_w', ARITH, call='__yd_add_w(d, in_n)', ret='dt_yd_t', replace=['__yd_add_d'], solvers=SV, **YD_IN)

MINV = ('S_JAN00((int)y) + S_CUML((int)y, m) + d == S_JAN00((int)__CPROVER_loop_entry(y)) + S_CUML((int)__CPROVER_loop_entry(y), __CPROVER_loop_entry(m)) + __CPROVER_loop_entry(d)')
GS('da.__ymd_fixup_d', 'date-core', '__ymd_fixup_d', ARITH, [('bwd', 'in_d < 1'), ('mid', 'in_d >= 1 && in_d <= 28'), ('fwd', 'in_d > 28')], ins=[(U, 'in_y'), ('int', 'in_m'), ('int', 'in_d')], call='__ymd_fixup_d(in_y, in_m, in_d)', ret='dt_ymd_t',
  replace=['__get_mdays'], solvers=SV, timeout=900,
  loopinv={'__ymd_fixup_d': [
      dict(id=0, inv='y >= 1601 && y <= 4095 && m >= 1 && m <= 12 && d < 1 && d >= -1000000 && ' + MINV + ' && S_JAN00((int)y) + S_CUML((int)y, m) + d >= 1', dec='12 * (int)y + m'),
      dict(id=1, inv='y >= 1601 && y <= 4095 && m >= 1 && m <= 12 && d >= 1 && d <= 1000000 && ' + MINV + ' && S_JAN00((int)y) + S_CUML((int)y, m) + d <= 911280', dec='d')]},
  sweep={'in_y': '1598 + RND % 2500', 'in_m': 'RND % 14', 'in_d': '(int)(RND % 40000) - 20000'})
G('da.__ymd_fixup', 'date-core', '__ymd_fixup', ARITH, ins=[('uint32_t', 'in_u')], setup='dt_ymd_t d; d.u = in_u;', call='__ymd_fixup(d)', ret='dt_ymd_t',
  replace=['__get_mdays'], sweep={'in_u': '((1598 + RND % 2500) << 10) | ((RND % 14) << 6) | (RND % 33)'})
G('da.__ymd_add_d', 'date-core', '__ymd_add_d', ARITH, call='__ymd_add_d(d, in_n)', ret='dt_ymd_t', replace=['__ymd_fixup', '__ymd_fixup_d'], solvers=SV, **YMD_IN)
G('da.__ymd_add_w', 'date-core', '__ymd_add_w', ARITH, call='__ymd_add_w(d, in_n)', ret='dt_ymd_t', replace=['__ymd_add_d'], solvers=SV, **YMD_IN)
G('da.__daisy_add_d', 'date-core', '__daisy_add_d', ARITH, ins=[('dt_daisy_t', 'in_d'), ('int', 'in_n')], call='__daisy_add_d(in_d, in_n)', ret='dt_daisy_t')
G('da.__daisy_add_w', 'date-core', '__daisy_add_w', ARITH, ins=[('dt_daisy_t', 'in_d'), ('int', 'in_n')], call='__daisy_add_w(in_d, in_n)', ret='dt_daisy_t', replace=['__daisy_add_d'])

WINV = ('S_ISOMON1((int)y) + 7 * (w - 1) == S_ISOMON1((int)__CPROVER_loop_entry(y)) + 7 * (__CPROVER_loop_entry(w) - 1) && hang == S_HANG((int)y)')
GS('da.__ywd_fixup_w', 'date-core', '__ywd_fixup_w', ARITH, [('bwd', 'in_w < 1'), ('mid', 'in_w >= 1 && in_w <= 52'), ('fwd', 'in_w > 52')], ins=[(U, 'in_y'), ('int', 'in_w'), (U, 'in_d'), ('int', 'in_hang')],
  call='__ywd_fixup_w(in_y, in_w, (dt_dow_t)in_d, in_hang)', ret='dt_ywd_t', replace=['__get_isowk', '__leapp'], solvers=SV, timeout=900,
  loopinv={'__ywd_fixup_w': [
      dict(id=0, inv='y >= 1602 && y <= 4096 && w < 1 && w >= -150000 && ' + WINV + ' && S_ISOMON1((int)y) + 7 * (w - 1) >= -5', dec='y'),
      dict(id=1, inv='y >= 1601 && y <= 4095 && w >= 1 && w <= 150000 && ' + WINV + ' && S_ISOMON1((int)y) + 7 * (w - 1) <= 911280', dec='w')]},
  sweep={'in_y': '1598 + RND % 2500', 'in_w': '(int)(RND % 6000) - 3000', 'in_d': 'RND % 9', 'in_hang': '(int)(RND % 9) - 4'})
G('da.__ywd_add_w', 'date-core', '__ywd_add_w', ARITH, call='__ywd_add_w(d, in_n)', ret='dt_ywd_t', replace=['__ywd_fixup_w'], solvers=SV, **YWD_IN)
G('da.__ywd_add_d', 'date-core', '__ywd_add_d', ARITH, call='__ywd_add_d(d, in_n)', ret='dt_ywd_t', replace=['__ywd_add_w'], solvers=SV, **YWD_IN)

DN_IN = dict(ins=[(U, 'in_typ'), ('uint32_t', 'in_u'), ('int', 'in_n')], setup='struct dt_d_s d = {DT_DUNK}; d.typ = (dt_dtyp_t)in_typ; d.u = in_u;')
ATYPS = ('DT_YMD', 'DT_YD', 'DT_YWD', 'DT_DAISY', 'DT_LDN', 'DT_MDN')
UNR = lambda *fs: ['%s/UNREACH_%s' % (f, f) for f in fs]
for t in ATYPS:
    G('da.dt_dadd_d.' + t[3:], 'date-core', 'dt_dadd_d', ARITH, fix={'in_typ': t}, call='dt_dadd_d(d, in_n)', ret='struct dt_d_s',
      replace=['__ymd_add_d', '__yd_add_d', '__ywd_add_d', '__daisy_add_d', '__daisy_to_ldn', '__daisy_to_mdn', '__ldn_to_daisy', '__mdn_to_daisy']
      + UNR('__jdn_to_daisy', '__daisy_to_jdn', '__ymcw_add_d', '__bizda_add_d'), solvers=SV, sweep={'in_n': '(int)(RND % 40000) - 20000'},
      timeout=1500 if t == 'DT_YWD' else 600, tier='thorough' if t == 'DT_YWD' else 'quick', optional=(t == 'DT_YWD'), **DN_IN)
    G('da.dt_dadd_w.' + t[3:], 'date-core', 'dt_dadd_w', ARITH, fix={'in_typ': t}, call='dt_dadd_w(d, in_n)', ret='struct dt_d_s',
      replace=['__ymd_add_w', '__yd_add_w', '__ywd_add_w', '__daisy_add_w', '__daisy_to_ldn', '__daisy_to_mdn', '__ldn_to_daisy', '__mdn_to_daisy']
      + UNR('__jdn_to_daisy', '__daisy_to_jdn', '__ymcw_add_w', '__bizda_add_w'), solvers=SV, sweep={'in_n': '(int)(RND % 4000) - 2000'},
      timeout=1500 if t == 'DT_YWD' else 600, tier='thorough' if t == 'DT_YWD' else 'quick', optional=(t == 'DT_YWD'), **DN_IN)
# dt_dadd: the duration dispatcher, one group per (duration unit, calendar) case of its contract
DADD_CASES = [('D', 'DT_DURD', t) for t in ('DT_YMD', 'DT_YD', 'DT_YWD', 'DT_DAISY', 'DT_LDN', 'DT_MDN')] + \
             [('W', 'DT_DURWK', t) for t in ('DT_YMD', 'DT_YD', 'DT_YWD', 'DT_DAISY', 'DT_LDN', 'DT_MDN')] + \
             [('MO', 'DT_DURMO', t) for t in ('DT_YMD', 'DT_YMCW')] + [('QU', 'DT_DURQU', t) for t in ('DT_YMD', 'DT_YMCW')] + \
             [('YR', 'DT_DURYR', t) for t in ('DT_YMD', 'DT_YMCW', 'DT_YD', 'DT_YWD')]
DADD_CALLEE = {'D': 'dt_dadd_d', 'W': 'dt_dadd_w', 'MO': 'dt_dadd_m', 'QU': 'dt_dadd_m', 'YR': 'dt_dadd_y'}
# the civil-calendar day/week cases re-derive V_d and the day number of the result from the callee's postcondition: 200..900 s each
SLOW = lambda nm, t: nm in ('D', 'W') and t in ('DT_YMD', 'DT_YD', 'DT_YWD')
for nm, dt, t in DADD_CASES:
    cal = DADD_CALLEE[nm]
    G('da.dt_dadd.%s.%s' % (nm, t[3:]), 'date-core', 'dt_dadd', (ARITH if nm in ('D', 'W') else ['C04']), ins=[(U, 'in_typ'), ('uint32_t', 'in_u'), (U, 'in_dt'), ('int', 'in_n')], fix={'in_typ': t, 'in_dt': dt},
      setup='struct dt_d_s d = {DT_DUNK}; d.typ = (dt_dtyp_t)in_typ; d.u = in_u; struct dt_ddur_s dur = {DT_DURUNK}; dur.durtyp = (dt_durtyp_t)in_dt; dur.dv = in_n;',
      call='dt_dadd(d, dur)', ret='struct dt_d_s', replace=[cal] + UNR('dt_dadd_b', *[c for c in ('dt_dadd_d', 'dt_dadd_w', 'dt_dadd_m', 'dt_dadd_y') if c != cal]), solvers=SV,
      timeout=1800 if SLOW(nm, t) else 600, tier='thorough' if SLOW(nm, t) else 'quick', optional=SLOW(nm, t),
      needs={cal: r'\.%s$' % t[3:]}, sweep={'in_n': '(int)(RND % 4000) - 2000'})

# dt_ddiff, day differences (DT_DURD)
DTYPS = ('DT_YMD', 'DT_YD', 'DT_DAISY', 'DT_LDN', 'DT_MDN')
for t1 in DTYPS:
    for t2 in DTYPS:
        G('da.dt_ddiff.D.%s.%s' % (t1[3:], t2[3:]), 'date-core', 'dt_ddiff', ['C05', 'C11'], ins=[(U, 'in_t1'), ('uint32_t', 'in_u1'), (U, 'in_t2'), ('uint32_t', 'in_u2'), ('int', 'in_carry')],
          fix={'in_t1': t1, 'in_t2': t2}, setup='struct dt_d_s d1 = {DT_DUNK}; d1.typ = (dt_dtyp_t)in_t1; d1.u = in_u1; struct dt_d_s d2 = {DT_DUNK}; d2.typ = (dt_dtyp_t)in_t2; d2.u = in_u2;',
          call='dt_ddiff(DT_DURD, d1, d2, in_carry)', ret='struct dt_ddur_s', replace=['dt_conv_to_daisy', '__get_nbdays', '__daisy_get_wday'], solvers=SV,
          tier='quick' if t1 == t2 or (t1, t2) in (('DT_YMD', 'DT_DAISY'), ('DT_YD', 'DT_YMD')) else 'thorough',
          sweep={'in_u1': 'RND', 'in_u2': 'RND'})
G('da.dt_ddiff.BD.DAISY', 'date-core', 'dt_ddiff', ['C07'], ins=[('uint32_t', 'in_u1'), ('uint32_t', 'in_u2'), ('int', 'in_carry')],
  setup='struct dt_d_s d1 = {DT_DUNK}; d1.typ = DT_DAISY; d1.u = in_u1; struct dt_d_s d2 = {DT_DUNK}; d2.typ = DT_DAISY; d2.u = in_u2;',
  call='dt_ddiff(DT_DURBD, d1, d2, in_carry)', ret='struct dt_ddur_s', replace=['dt_conv_to_daisy', '__get_nbdays', '__daisy_get_wday'], solvers=SV, timeout=3000, tier='thorough', optional=True,
  sweep={'in_u1': '1 + RND % 911280', 'in_u2': '1 + RND % 911280'})

# ymcw day / week adders (__ymcw_fixup_c loops, __ymcw_add_w, __ymcw_add_d): contracts were written (git history) but the loop-contract
# proof of __ymcw_fixup_c did not finish in 900 s per piece and __ymcw_add_d needs a weaker callee precondition; not registered (seed C03_3 missed)
