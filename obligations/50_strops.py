# lib/strops.c, lib/strops.h (C09 round trips, C10 memory safety)
TU('strops', 'lib/strops.c', LIB_CFLAGS, pre=[], post=['contracts/strops.contracts.h'])
S = ['C09', 'C10']
G('so.ui99topstr', 'strops', 'ui99topstr', S, body='\tchar *b; size_t z, w; uint32_t d; char pad;\n\tui99topstr(b, z, d, w, pad);', native=False)
G('so.ui9999topstr', 'strops', 'ui9999topstr', S, body='\tchar *b; size_t z, w; uint32_t d; char pad;\n\tui9999topstr(b, z, d, w, pad);', native=False)
G('so.__rom_pr1', 'strops', '__rom_pr1', S, body='\tchar *b; size_t z; unsigned i; char c, h, l;\n\t__rom_pr1(b, z, i, c, h, l);', native=False)
G('so.ui32tostrrom', 'strops', 'ui32tostrrom', S, body='\tchar *b; size_t z; uint32_t d;\n\tui32tostrrom(b, z, d);', replace=['__rom_pr1'], native=False, unwind=8,
  note='thousands loop runs at most 4 times for d <= 4095: unwound 8 with unwinding assertion (complete)')
G('so.strtoi_lim', 'strops', 'strtoi_lim', S, body='\tconst char *s; const char **ep; int32_t lo, hi;\n\tstrtoi_lim(s, ep, lo, hi);', native=False, unwind=14,
  note='digit loop bounded by the operand width (<= 10 iterations): unwound 14 with unwinding assertion (complete)')
G('so.romstrtoi_lim', 'strops', 'romstrtoi_lim', S, body='\tconst char *s; const char **ep; int32_t lo, hi;\n\tromstrtoi_lim(s, ep, lo, hi);', native=False, unwind=20,
  bounded=dict(bound='strings of at most 17 bytes', why='the roman reader loops to the terminating NUL; longer strings are not explored'))
G('so.L_rt_rom', 'strops', 'L_rt_rom', ['C09'], ins=[('uint32_t', 'in_d')], call='L_rt_rom(in_d)', pre='1', post='1', direct=True, must=['L_rt_rom'], native=False, unwind=20, timeout=600)
G('so.L_rt_j', 'strops', 'L_rt_j', ['C09'], ins=[('uint32_t', 'in_d'), ('char', 'in_f'), ('size_t', 'in_z')], call='L_rt_j(in_d, in_f, in_z)', pre='1', post='1', direct=True, must=['L_rt_j'], native=False, unwind=14, timeout=600)
G('so.L_rt_num', 'strops', 'L_rt_num', ['C09'], ins=[('uint32_t', 'in_d'), ('char', 'in_f')], call='L_rt_num(in_d, in_f)', pre='1', post='1', direct=True, must=['L_rt_num'], native=False, unwind=14, timeout=600)
