# src/dround.c (C16)
TU('dround', 'src/dround.c', SRC_CFLAGS + ['-Dmain=dround_main'], pre=['spec/greg.h', 'spec/iso.h'], post=['contracts/dround.contracts.h'],
   native_link=['src/dt-io.c', 'src/dt-io-zone.c', 'src/alist.c', 'src/prchunk.c', 'lib/strops.c', 'lib/token.c', 'lib/dt-locale.c', 'lib/dt-core.c', 'lib/time-core.c', 'lib/date-core.c', 'lib/leaps.c', 'lib/tzraw.c', 'lib/tzmap.c', 'lib/dt-core-tz-glue.c', 'lib/version.c'])
U = 'unsigned'
T_IN = [(U, 'in_h'), (U, 'in_m'), (U, 'in_s'), (U, 'in_ns'), (U, 'in_dt'), ('int', 'in_dv'), (U, 'in_neg'), (U, 'in_next')]
T_SET = ('struct dt_t_s t = {DT_TUNK}; t.typ = DT_HMS; t.hms.h = in_h; t.hms.m = in_m; t.hms.s = in_s; t.hms.ns = in_ns; '
         'struct dt_dtdur_s dur = {(dt_dtdurtyp_t)DT_DURUNK}; dur.durtyp = (dt_dtdurtyp_t)in_dt; dur.dv = in_dv; dur.neg = in_neg & 1;')
SW = {'in_h': 'RND % 24', 'in_m': 'RND % 60', 'in_s': 'RND % 60', 'in_ns': 'RND % 1000000000', 'in_dv': '(int)(RND % 119) - 59', 'in_neg': 'RND % 2', 'in_next': 'RND % 2'}
for nm, dt in (('H', 'DT_DURH'), ('M', 'DT_DURM'), ('S', 'DT_DURS')):
    G('dr.tround_tdur.' + nm, 'dround', 'tround_tdur', ['C16'], ins=T_IN, fix={'in_dt': dt}, setup=T_SET, call='tround_tdur(t, dur, in_next & 1)', ret='struct dt_t_s', sweep=SW, timeout=600)
    G('dr.tround_tdur_cocl.' + nm, 'dround', 'tround_tdur_cocl', ['C16'], ins=T_IN, fix={'in_dt': dt}, setup=T_SET, call='tround_tdur_cocl(t, dur, in_next & 1)', ret='struct dt_t_s',
      sweep=dict(SW, in_dv='(int)(RND % 121) - 60'), timeout=900)
D_IN = [('uint32_t', 'in_u'), (U, 'in_dt'), ('int', 'in_dv'), (U, 'in_neg'), (U, 'in_next')]
D_SET = ('struct dt_d_s d = {DT_DUNK}; d.typ = DT_YMD; d.ymd.u = in_u; struct dt_ddur_s dur = {DT_DURUNK}; dur.durtyp = (dt_durtyp_t)in_dt; dur.dv = in_dv; dur.neg = in_neg & 1;')
SWD = {'in_u': '((1602 + RND % 2490) << 10) | ((RND % 14) << 6) | (RND % 33)', 'in_dv': '(int)(RND % 63) - 31', 'in_neg': 'RND % 2', 'in_next': 'RND % 2'}
G('dr.dround_ddur.YMD', 'dround', 'dround_ddur', ['C16'], ins=[('uint32_t', 'in_u'), (U, 'in_tm'), (U, 'in_neg'), (U, 'in_next')],
  setup='struct dt_d_s d = {DT_DUNK}; d.typ = DT_YMD; d.ymd.u = in_u; struct dt_ddur_s dur = {DT_DURUNK}; dur.durtyp = DT_DURYMD; dur.ymd.m = in_tm; dur.neg = in_neg & 1;',
  call='dround_ddur(d, dur, in_next & 1)', ret='struct dt_d_s', replace=['__get_mdays', 'dt_dur_neg_p'], timeout=600,
  sweep={'in_u': '((1602 + RND % 2490) << 10) | ((RND % 14) << 6) | (RND % 33)', 'in_tm': 'RND % 14', 'in_neg': 'RND % 2', 'in_next': 'RND % 2'})
G('dr.dround_ddur.MO', 'dround', 'dround_ddur', ['C16'], ins=D_IN, fix={'in_dt': 'DT_DURMO'}, setup=D_SET, call='dround_ddur(d, dur, in_next & 1)', ret='struct dt_d_s',
  replace=['__get_mdays', 'dt_dur_neg_p'], sweep=SWD, timeout=600)
G('dr.dround_ddur.D', 'dround', 'dround_ddur', ['C16'], ins=D_IN, fix={'in_dt': 'DT_DURD'}, setup=D_SET, call='dround_ddur(d, dur, in_next & 1)', ret='struct dt_d_s',
  replace=['__get_mdays'], sweep=SWD, timeout=600)
G('dr.dround_ddur.WD', 'dround', 'dround_ddur', ['C16'], ins=[('uint32_t', 'in_n'), (U, 'in_w'), (U, 'in_neg'), (U, 'in_next')],
  setup='struct dt_d_s d = {DT_DUNK}; d.typ = DT_DAISY; d.daisy = in_n; struct dt_ddur_s dur = {DT_DURUNK}; dur.durtyp = DT_DURYMCW; dur.ymcw.w = in_w; dur.neg = in_neg & 1;',
  call='dround_ddur(d, dur, in_next & 1)', ret='struct dt_d_s', replace=['dt_dconv', 'dt_get_wday', 'dt_dur_neg_p'], timeout=600,
  sweep={'in_n': '8 + RND % 911260', 'in_w': 'RND % 9', 'in_neg': 'RND % 2', 'in_next': 'RND % 2'})

# sxround_dur_cocl (co-class rounding of epoch values): contract written in contracts/dround.contracts.h; its groups (64-bit remainder by a
# symbolic step, even bounded to t < 2^32) did not discharge in 800 s per unit and are not registered (seed C16_3 is missed)
