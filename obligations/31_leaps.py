# lib/leaps.c (C14)
TU('leaps', 'lib/leaps.c', LIB_CFLAGS, pre=[], post=['contracts/leaps.contracts.h'])
G('lp.leaps_before_si32', 'leaps', 'leaps_before_si32', ['C14'], body='\tconst int32_t *fld; size_t in_n; int32_t in_key;\n\tleaps_before_si32(fld, in_n, in_key);',
  native=False, unwind={'find_before_si32.0': 40}, bounded=None, timeout=900,
  note='loop unwound 40 times with unwinding assertion: complete for tables of <= 32 entries (each iteration shrinks max-min)')
G('lp.leaps_before_ui32', 'leaps', 'leaps_before_ui32', ['C14'], body='\tconst uint32_t *fld; size_t in_n; uint32_t in_key;\n\tleaps_before_ui32(fld, in_n, in_key);',
  native=False, unwind={'find_before_ui32.0': 40}, timeout=900)
