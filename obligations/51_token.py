# lib/token.c (C10)
TU('token', 'lib/token.c', LIB_CFLAGS, pre=[], post=['contracts/token.contracts.h'])
G('tk.__tok_spec', 'token', '__tok_spec', ['C10', 'C09'], body='\tconst char *fp; const char **ep;\n\t__tok_spec(fp, ep);', native=False, unwind=10, timeout=600,
  bounded=dict(bound='format strings of at most 7 bytes', why='the modifier loop (goto next) runs once per format byte; 7 bytes cover every specifier form, longer strings only add trailing bytes the tokenizer does not look at'))
