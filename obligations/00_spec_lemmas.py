# spec lemmas: the specification layer audited by CBMC on the spec alone (direct mode, no /repo code)
TU('spec', 'lib/nifty.h', LIB_CFLAGS, pre=['spec/greg.h', 'spec/iso.h'], post=['spec/lemmas.h'])
ALLP = ['C01', 'C03', 'C04', 'C05', 'C07', 'C08']

G('spec.anchors', 'spec', 'L_anchors', ALLP, body='\tL_anchors();', direct=True, must=['L_anchors'], native=False, reach=False)
for sfx, pred in ysplit('in_y', 8):
    G('spec.succ.' + sfx, 'spec', 'L_succ', ALLP, ins=[('int', 'in_y'), ('int', 'in_m'), ('int', 'in_d'), ('int', 'in_y2'), ('int', 'in_m2'), ('int', 'in_d2')],
      call='L_succ(in_y, in_m, in_d, in_y2, in_m2, in_d2)', pre='1', post='1', split=pred, direct=True, must=['L_succ'], native=False,
      solvers=['cadical', 'cvc5'])
    G('spec.monof.' + sfx, 'spec', 'L_monof', ALLP, ins=[('int', 'in_y'), ('int', 'in_m'), ('int', 'in_d')],
      call='L_monof(in_y, in_m, in_d)', pre='1', post='1', split=pred, direct=True, must=['L_monof'], native=False)
    G('spec.iso.' + sfx, 'spec', 'L_iso', ALLP, ins=[('int', 'in_y')],
      call='L_iso(in_y)', pre='1', post='1', split=pred, direct=True, must=['L_iso'], native=False, solvers=['cadical', 'cvc5'])

for sfx, pred in ysplit('in_y', 4, 1601, 4097):
    G('spec.tab.' + sfx, 'spec', 'L_tab', ALLP, ins=[('int', 'in_y')], call='L_tab(in_y)', pre='1', post='1', split=pred, direct=True,
      must=['L_tab'], native=False)
for sfx, pred in ysplit('in_y', 16, 1601, 4097):
    G('spec.wd.' + sfx, 'spec', 'L_wd', ALLP, ins=[('int', 'in_y'), ('int', 'in_yd')], call='L_wd(in_y, in_yd)', pre='1', post='1', split=pred,
      direct=True, must=['L_wd'], native=False)
for sfx, pred in ysplit('in_y', 16, 1601, 4096):
    G('spec.ywd.' + sfx, 'spec', 'L_ywd', ALLP, ins=[('int', 'in_y'), ('int', 'in_c'), ('int', 'in_w')], call='L_ywd(in_y, in_c, in_w)', pre='1', post='1',
      split=pred, direct=True, must=['L_ywd'], native=False)
for sfx, pred in ysplit('in_y', 4, 1601, 4096):
    G('spec.range.' + sfx, 'spec', 'L_range', ALLP, ins=[('int', 'in_y'), ('int', 'in_yd')], call='L_range(in_y, in_yd)', pre='1', post='1',
      split=pred, direct=True, must=['L_range'], native=False, solvers=['cadical', 'cvc5'])
