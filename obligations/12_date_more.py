# C04 / C05 / C07 / C08 on the real lib/date-core.c
U = 'unsigned int'
UNR = lambda *fs: ['%s/UNREACH_%s' % (f, f) for f in fs]
SV = ['cadical']
Y2 = dict(ins=[('uint32_t', 'in_u1'), ('uint32_t', 'in_u2')])
SWY = '((1598 + RND % 2500) << 10) | ((RND % 14) << 6) | (RND % 33)'
SWC = '((1598 + RND % 2500) << 10) | ((RND % 14) << 6) | ((RND % 7) << 3) | (RND % 8)'
SWD = '((1598 + RND % 2500) << 16) | (RND % 368)'
G('dm.__ymcw_cmp', 'date-core', '__ymcw_cmp', ['C08'], setup='dt_ymcw_t d1, d2; d1.u = in_u1; d2.u = in_u2;', call='__ymcw_cmp(d1, d2)', ret='int',
  replace=['__get_m01_wday'], solvers=SV, sweep={'in_u1': SWC, 'in_u2': SWC}, **Y2)
MLOOPS = [dict(id=0, inv='tgtm >= -31000 && tgtm <= 31000 && d.y >= 1601 && d.y <= 4095 && 12 * (int)d.y + tgtm == 12 * (int)__CPROVER_loop_entry(d.y) + __CPROVER_loop_entry(tgtm) && 12 * (int)d.y + tgtm <= 12 * 4095 + 12 && (d.u & 1023u) == (__CPROVER_loop_entry(d.u) & 1023u) && (d.u >> 22) == 0', dec='tgtm', assigns='tgtm, d'),
          dict(id=1, inv='tgtm <= 12 && tgtm >= -31000 && d.y >= 1601 && d.y <= 4095 && 12 * (int)d.y + tgtm == 12 * (int)__CPROVER_loop_entry(d.y) + __CPROVER_loop_entry(tgtm) && 12 * (int)d.y + tgtm >= 12 * 1601 + 1 && (d.u & 1023u) == (__CPROVER_loop_entry(d.u) & 1023u) && (d.u >> 22) == 0', dec='-tgtm', assigns='tgtm, d')]
G('dm.__ymd_add_m', 'date-core', '__ymd_add_m', ['C04'], ins=[('uint32_t', 'in_u'), ('int', 'in_n')], setup='dt_ymd_t d; d.u = in_u;', call='__ymd_add_m(d, in_n)', ret='dt_ymd_t',
  loopinv={'__ymd_add_m': MLOOPS}, solvers=SV, timeout=600, sweep={'in_u': SWY, 'in_n': '(int)(RND % 2000) - 1000'})
G('dm.__ymcw_add_m', 'date-core', '__ymcw_add_m', ['C04'], ins=[('uint32_t', 'in_u'), ('int', 'in_n')], setup='dt_ymcw_t d; d.u = in_u;', call='__ymcw_add_m(d, in_n)', ret='dt_ymcw_t',
  loopinv={'__ymcw_add_m': MLOOPS}, solvers=SV, timeout=600, sweep={'in_u': SWC, 'in_n': '(int)(RND % 2000) - 1000'})
G('dm.__ymd_add_y', 'date-core', '__ymd_add_y', ['C04'], ins=[('uint32_t', 'in_u'), ('int', 'in_n')], setup='dt_ymd_t d; d.u = in_u;', call='__ymd_add_y(d, in_n)', ret='dt_ymd_t',
  sweep={'in_u': SWY, 'in_n': '(int)(RND % 200) - 100'})
G('dm.__ymcw_fixup', 'date-core', '__ymcw_fixup', ['C04'], ins=[('uint32_t', 'in_u')], setup='dt_ymcw_t d; d.u = in_u;', call='__ymcw_fixup(d)', ret='dt_ymcw_t', replace=['__get_mcnt'], sweep={'in_u': SWC})
G('dm.__ywd_add_y', 'date-core', '__ywd_add_y', ['C04'], ins=[('uint32_t', 'in_u'), ('int', 'in_n')], setup='dt_ywd_t d; d.u = in_u;', call='__ywd_add_y(d, in_n)', ret='dt_ywd_t',
  replace=['__get_jan01_wday', '__ywd_get_jan01_hang'], sweep={'in_n': '(int)(RND % 200) - 100'})
G('dm.__ywd_fixup', 'date-core', '__ywd_fixup', ['C04'], ins=[('uint32_t', 'in_u')], setup='dt_ywd_t d; d.u = in_u;', call='__ywd_fixup(d)', ret='dt_ywd_t', replace=['__get_isowk'])
# C07
for dow in range(1, 8):
    G('dm.__get_d_equiv.%d' % dow, 'date-core', '__get_d_equiv', ['C07'], ins=[(U, 'in_dow'), ('int', 'in_b')], fix={'in_dow': str(dow)}, call='__get_d_equiv((dt_dow_t)in_dow, in_b)', ret='int',
      solvers=SV, timeout=600, sweep={'in_b': '(int)(RND % 4000) - 2000'})
GS('dm.__get_bdays', 'date-core', '__get_bdays', ['C07'], ysplit('in_y', 4, 1601, 4095), ins=[(U, 'in_y'), (U, 'in_m')], call='__get_bdays(in_y, in_m)', ret=U,
   replace=['__get_mdays', '__get_m01_wday'], solvers=SV, timeout=600, sweep={'in_y': '1598 + RND % 2500', 'in_m': 'RND % 14'})
GS('dm.__bizda_get_mday', 'date-core', '__bizda_get_mday', ['C07'], ysplit('d.y', 4, 1601, 4095), ins=[('uint32_t', 'in_u')], setup='dt_bizda_t d; d.u = in_u;', call='__bizda_get_mday(d)', ret=U,
   replace=['__get_mdays', '__get_m01_wday'], solvers=SV, timeout=600, sweep={'in_u': '((1598 + RND % 2500) << 9) | ((RND % 14) << 5) | (RND % 25)'})
GS('dm.__bizda_get_yday', 'date-core', '__bizda_get_yday', ['C07'], ysplit('d.y', 4, 1601, 4095), ins=[('uint32_t', 'in_u')], setup='dt_bizda_t d; d.u = in_u; dt_bizda_param_t p = __make_bizda_param(BIZDA_AFTER, BIZDA_ULTIMO);',
   call='__bizda_get_yday(d, p)', ret=U, direct=True, unwind=14, solvers=SV, timeout=600, sweep={'in_u': '((1598 + RND % 2500) << 9) | ((RND % 14) << 5) | (RND % 25)'})
# C05
GS('dm.__ymd_diff', 'date-core', '__ymd_diff', ['C05'], ysplit('d1.y', 4, 1601, 4095), setup='dt_ymd_t d1, d2; d1.u = in_u1; d2.u = in_u2;', call='__ymd_diff(d1, d2)', ret='struct dt_ddur_s',
   replace=['__get_mdays'], solvers=SV, timeout=900, sweep={'in_u1': SWY, 'in_u2': SWY}, **Y2)
GS('dm.__yd_diff', 'date-core', '__yd_diff', ['C05'], ysplit('d1.y', 4, 1601, 4095), setup='dt_yd_t d1, d2; d1.u = in_u1; d2.u = in_u2;', call='__yd_diff(d1, d2)', ret='struct dt_ddur_s',
   replace=['__leapp'], solvers=SV, timeout=900, sweep={'in_u1': SWD, 'in_u2': SWD}, **Y2)
G('dm.dt_dur_neg_p', 'date-core', 'dt_dur_neg_p', ['C16'], ins=[(U, 'in_dt'), ('int', 'in_dv'), (U, 'in_neg')],
  setup='struct dt_ddur_s dur = {DT_DURUNK}; dur.durtyp = (dt_durtyp_t)in_dt; dur.dv = in_dv; dur.neg = in_neg & 1;', call='dt_dur_neg_p(dur)', ret='int',
  sweep={'in_dt': 'RND % 12'})
# C02: numeric date specifiers print the same text for the same day whatever the representation / state of the print record
STRF_HINT = {'DT_YMD': '((2012u << 10) | (12u << 6) | 31u)', 'DT_YD': '((2012u << 16) | 366u)', 'DT_YMCW': '((2012u << 10) | (12u << 6) | (5u << 3) | 1u)',
             'DT_YWD': '((2013u << 13) | (1u << 6) | (1u << 3) | 7u)', 'DT_DAISY': '144470u'}
# which lazy fill-in helper a representation can reach under REC: ywd / yd records start without month -> dt_get_md; ymcw records start
# without day of month -> dt_get_mday; everything else is asserted unreachable
def STRF_REPL(t):
    md = ['dt_get_md'] if t in ('DT_YWD', 'DT_YD') else UNR('dt_get_md')
    dd = ['dt_get_mday'] if t == 'DT_YMCW' else UNR('dt_get_mday')
    # the callees of the specifiers that are not under contract are asserted unreachable (the specifier is fixed in each group)
    return ['dt_dconv', '__ymd_get_yday'] + md + dd + UNR('dt_get_mon', 'dt_get_bday_q', '__bizda_get_yday', 'dt_get_wcnt_year', 'dt_get_wcnt_mon', 'dt_get_quarter', 'dt_get_wday', 'arritostr', 'verif_snprintf')
# quick tier: every specifier on the representations where it is not a plain field copy (6 GB and 2-5 min per group); all 29 in the thorough tier
STRF_QUICK = {('J', 'YMD'), ('J', 'YD'), ('J', 'YMCW'), ('J', 'YWD'), ('J', 'DAISY'), ('Y', 'YWD'), ('M', 'YD'), ('D', 'YMCW'), ('D', 'YD'), ('F', 'YD'), ('G', 'YD'), ('G', 'YMCW'), ('G', 'YWD')}
STRF_SPFL = {'G': 'DT_SPFL_N_YEAR', 'Y': 'DT_SPFL_N_YEAR', 'M': 'DT_SPFL_N_MON', 'D': 'DT_SPFL_N_DCNT_MON', 'J': 'DT_SPFL_N_DCNT_YEAR', 'F': 'DT_SPFL_N_DSTD'}
for c in ('G', 'Y', 'M', 'D', 'J', 'F'):
    for t in ('DT_YMD', 'DT_YD', 'DT_YMCW', 'DT_YWD', 'DT_DAISY'):
        if c == 'G' and t == 'DT_DAISY':
            continue
        G('dm.__strfd_card.%s.%s' % (c, t[3:]), 'date-core', '__strfd_card', ['C02'],
          body='\tchar *buf; size_t bsz; struct strpd_s *d; unsigned in_typ = %s; uint32_t in_u; unsigned in_ab, in_cap, in_sc12, in_wk, in_param;\n'
               '\t/* value and specifier are built field by field from constant-initialised structs: the fields that select the representation and the\n'
               '\t * specifier are constants (symex prunes the other cases), everything else is unconstrained */\n'
               '\tstruct dt_d_s that = {DT_DUNK}; that.typ = (dt_dtyp_t)in_typ; that.u = in_u; that.param = in_param;\n'
               '\tstruct dt_spec_s s = {0}; s.spfl = %s; s.abbr = DT_SPMOD_LONG; s.tai = %d; s.ab = in_ab; s.cap = in_cap; s.sc12 = in_sc12; s.wk_cnt = in_wk;\n'
               '\t__CPROVER_assume(SP_%s(s));\n\t/*REACH*/\n\t__strfd_card(buf, bsz, s, d, that);' % (t, STRF_SPFL[c], 1 if c == 'G' else 0, c),
          reach_hint='__CPROVER_assume(in_u == %s);' % STRF_HINT[t],
          replace=STRF_REPL(t), contract='C_strfd_' + c + ('_DSY' if t == 'DT_DAISY' else ''), weight=2, tier=('quick' if (c, t[3:]) in STRF_QUICK else 'thorough'), native=False, timeout=900, solvers=['cadical'], reach=(False if c == 'G' else True),
          needs={'dt_get_md': r'\.%s$' % t[3:], 'dt_get_mday': r'\.%s$' % t[3:]},
          note='no reachability twin for %G: finding a model through the assumed dt_dconv contract did not finish in 10 min; non-vacuity is shown by seed C02_1' if c == 'G' else '')
for t in ('DT_YWD', 'DT_YD'):
    G('dm.dt_get_md.' + t[3:], 'date-core', 'dt_get_md', ['C02'], ins=[(U, 'in_typ'), ('uint32_t', 'in_u')], fix={'in_typ': t},
      setup='struct dt_d_s that = {DT_DUNK}; that.typ = (dt_dtyp_t)in_typ; that.u = in_u;', call='dt_get_md(that)', ret='struct __md_s',
      replace=['__ymcw_get_mday', '__ywd_get_md', '__yd_get_md'], native=False, solvers=SV, timeout=600)
for t in ('DT_YMD', 'DT_YMCW'):
    G('dm.dt_get_mday.' + t[3:], 'date-core', 'dt_get_mday', ['C02'], ins=[(U, 'in_typ'), ('uint32_t', 'in_u')], fix={'in_typ': t},
      setup='struct dt_d_s that = {DT_DUNK}; that.typ = (dt_dtyp_t)in_typ; that.u = in_u;', call='dt_get_mday(that)', ret='int',
      replace=['__ymcw_get_mday', '__daisy_to_ymd'] + UNR('__bizda_get_mday'), solvers=SV, timeout=600, sweep={'in_u': 'RND'})
G('dm.__prep_strfd_ywd', 'date-core', '__prep_strfd_ywd', ['C02'], body='\tstruct strpd_s *tgt; dt_ywd_t d;\n\t__prep_strfd_ywd(tgt, d);', replace=['__ywd_get_year'], native=False,
  solvers=SV, timeout=600)
G('dm.__prep_strfd_daisy', 'date-core', '__prep_strfd_daisy', ['C02'], body='\tstruct strpd_s *tgt; dt_daisy_t d;\n\t__prep_strfd_daisy(tgt, d);', replace=['__daisy_to_ymd'], native=False,
  solvers=SV, timeout=600)
for t in ('DT_YMD', 'DT_YD', 'DT_YWD', 'DT_DAISY'):
    G('dm.dt_dcmp.' + t[3:], 'date-core', 'dt_dcmp', ['C08'], ins=[(U, 'in_typ'), ('uint32_t', 'in_u1'), ('uint32_t', 'in_u2')], fix={'in_typ': t},
      setup='struct dt_d_s d1 = {DT_DUNK}, d2 = {DT_DUNK}; d1.typ = d2.typ = (dt_dtyp_t)in_typ; d1.u = in_u1; d2.u = in_u2;', call='dt_dcmp(d1, d2)', ret='int',
      replace=['__ymcw_cmp/UNREACH___ymcw_cmp'], solvers=SV, timeout=600, sweep={'in_u1': 'RND', 'in_u2': 'RND'})
G('dm.__yd_fixup', 'date-core', '__yd_fixup', ['C04'], ins=[('uint32_t', 'in_u')], setup='dt_yd_t d; d.u = in_u;', call='__yd_fixup(d)', ret='dt_yd_t', replace=['__get_ydays'], sweep={'in_u': SWD})
G('dm.__ymcw_add_y', 'date-core', '__ymcw_add_y', ['C04'], ins=[('uint32_t', 'in_u'), ('int', 'in_n')], setup='dt_ymcw_t d; d.u = in_u;', call='__ymcw_add_y(d, in_n)', ret='dt_ymcw_t',
  sweep={'in_u': SWC, 'in_n': '(int)(RND % 200) - 100'})
G('dm.__yd_add_y', 'date-core', '__yd_add_y', ['C04'], ins=[('uint32_t', 'in_u'), ('int', 'in_n')], setup='dt_yd_t d; d.u = in_u;', call='__yd_add_y(d, in_n)', ret='dt_yd_t',
  sweep={'in_u': SWD, 'in_n': '(int)(RND % 200) - 100'})
ADDM = {'DT_YMD': '__ymd_add_m', 'DT_YMCW': '__ymcw_add_m', 'DT_BIZDA': '__bizda_add_m'}
ADDY = {'DT_YMD': '__ymd_add_y', 'DT_YMCW': '__ymcw_add_y', 'DT_BIZDA': '__bizda_add_y', 'DT_YWD': '__ywd_add_y', 'DT_YD': '__yd_add_y'}
SWT = {'DT_YMD': SWY, 'DT_YMCW': SWC, 'DT_YD': SWD, 'DT_YWD': 'RND'}
for t in ('DT_YMD', 'DT_YMCW'):
    G('dm.dt_dadd_m.' + t[3:], 'date-core', 'dt_dadd_m', ['C04'], ins=[(U, 'in_typ'), ('uint32_t', 'in_u'), ('int', 'in_n')], fix={'in_typ': t},
      setup='struct dt_d_s d = {DT_DUNK}; d.typ = (dt_dtyp_t)in_typ; d.u = in_u;', call='dt_dadd_m(d, in_n)', ret='struct dt_d_s',
      replace=[ADDM[t]] + UNR(*[f for k, f in ADDM.items() if k != t]), solvers=SV, sweep={'in_u': SWT[t], 'in_n': '(int)(RND % 2000) - 1000'})
for t in ('DT_YMD', 'DT_YMCW', 'DT_YD', 'DT_YWD'):
    G('dm.dt_dadd_y.' + t[3:], 'date-core', 'dt_dadd_y', ['C04'], ins=[(U, 'in_typ'), ('uint32_t', 'in_u'), ('int', 'in_n')], fix={'in_typ': t},
      setup='struct dt_d_s d = {DT_DUNK}; d.typ = (dt_dtyp_t)in_typ; d.u = in_u;', call='dt_dadd_y(d, in_n)', ret='struct dt_d_s',
      replace=[ADDY[t]] + UNR(*[f for k, f in ADDY.items() if k != t]), solvers=SV, sweep={'in_u': SWT[t], 'in_n': '(int)(RND % 200) - 100'})
for t in ('DT_YMD', 'DT_YD', 'DT_YWD', 'DT_DAISY'):
    G('dm.dt_d_in_range_p.' + t[3:], 'date-core', 'dt_d_in_range_p', ['C08'], ins=[(U, 'in_typ'), ('uint32_t', 'in_u'), ('uint32_t', 'in_u1'), ('uint32_t', 'in_u2')], fix={'in_typ': t},
      setup='struct dt_d_s d = {DT_DUNK}, d1 = {DT_DUNK}, d2 = {DT_DUNK}; d.typ = d1.typ = d2.typ = (dt_dtyp_t)in_typ; d.u = in_u; d1.u = in_u1; d2.u = in_u2;',
      call='dt_d_in_range_p(d, d1, d2)', ret='int', replace=['dt_dcmp'], solvers=SV, timeout=600)
for dow in range(1, 8):
    G('dm.__get_nbdays.%d' % dow, 'date-core', '__get_nbdays', ['C07'], ins=[('int', 'in_dur'), (U, 'in_wd')], fix={'in_wd': str(dow)}, call='__get_nbdays(in_dur, (dt_dow_t)in_wd)', ret='int',
      solvers=SV, timeout=600, sweep={'in_dur': '(int)(RND % 4000) - 2000'})
G('dm.__strfd_card.mem', 'date-core', 'h_strfd_card_mem', ['C10'], body='\th_strfd_card_mem();', direct=True, native=False, reach=False, must=['MEMSAFE'], unwind=4, timeout=900,
  flags=['--no-malloc-may-fail'])
