# src/dt-io.c (C10): needle search over input lines, bounded
TU('dt-io', 'src/dt-io.c', SRC_CFLAGS, pre=[], post=['contracts/dt-io.harness.h'])
G('io.dt_io_find_strpdt2.mem', 'dt-io', 'h_find_strpdt2', ['C10'], body='\th_find_strpdt2();', direct=True, native=False, reach=False, must=['MEMSAFE'], unwind=8, timeout=800,
  flags=['--no-malloc-may-fail'],
  bounded=dict(bound='lines of <= 4 bytes (+NUL), <= 2 needle characters with arbitrary payload offsets/flags, all loops unwound 8 times with unwinding assertions',
               why='three nested pointer loops over two symbolic buffers; loop contracts over pointer ranges did not attach in CBMC 6.11'))
