# src/dt-io.c (C13): duration parser state between lines, bounded in the string length
TU('dt-io', 'src/dt-io.c', SRC_CFLAGS, pre=[], post=['contracts/dt-io.contracts.h'])
G('io.dt_io_strpdtdur.state', 'dt-io', 'dt_io_strpdtdur', ['C13', 'C10'], body='\tstruct __strpdtdur_st_s stv; char s[DTIO_STR_MAX + 1]; unsigned k; _Bool cont;\n\t__CPROVER_assume(k <= DTIO_STR_MAX);\n\ts[DTIO_STR_MAX] = 0; stv.cont = cont ? s + k : NULL;\n\tdt_io_strpdtdur(&stv, s);',
  replace=['dt_strpdtdur', 'dt_neg_dtdur', 'dt_dtdur_neg_p', '__add_dur'], native=False, unwind=10, timeout=600, solvers=['cadical'],
  bounded=dict(bound='strings of <= 6 bytes (+NUL); the sign/prefix loop is unwound 10 times with an unwinding assertion',
               why='a loop contract over the prefix-skipping pointer loop (switch with continue/break inside while(1)) did not attach in CBMC 6.11'))
