/* spec/greg.h -- textbook proleptic Gregorian calendar, as pure C.
 * Compiled by goto-cc inside contracts AND by gcc for native replay.
 * Day numbering: day 1 = 1601-01-01 (a Monday), day 911280 = 4095-12-31.
 *
 * Two layers:
 *  FP_*  first-principles definitions (leap rule, month lengths, 365/366, "day 1 is a Monday",
 *        ISO 8601 "week 1 contains Jan 4th").
 *  S_*   the forms used in contracts.  Year-level facts that are periodic with the 400-year
 *        Gregorian cycle (weekday of Jan 1, number of ISO weeks) are read from spec/tables.h
 *        (generated from Python's datetime) because mod-7 arithmetic on 20-bit day numbers is
 *        what makes SAT/SMT back ends slow.  The tables are not trusted: spec lemmas
 *        (spec/lemmas.h, groups spec.*) prove S_* == FP_* for every year on every run.
 * Macros (upper case) are usable inside loop invariants (no calls). */
#ifndef VERIF_SPEC_GREG_H
#define VERIF_SPEC_GREG_H
#include "tables.h"

#define S_MIN_YEAR 1601
#define S_MAX_YEAR 4095
#define S_MAX_DAISY 911280
#define S_UNIX_BASE 134775 /* day number of 1970-01-01 -- spec lemma L_anchors */

/* leap rule */
#define S_LEAP(y) ((((y) % 4) == 0 && (((y) % 100) != 0 || ((y) % 400) == 0)) ? 1 : 0)
/* days in years 1601..y-1, i.e. the day number of "Jan 0" of year y (y >= 1601) */
#define S_JAN00(y) (365 * ((y) - 1601) + ((y) - 1601) / 4 - ((y) - 1601) / 100 + ((y) - 1601) / 400)
#define S_YDAYS(y) (365 + S_LEAP(y))

/* cumulative days before month m (1..13) in a non-leap year */
static const int S_CUM[14] = {0, 0, 31, 59, 90, 120, 151, 181, 212, 243, 273, 304, 334, 365};
static const int S_MLEN[13] = {0, 31, 28, 31, 30, 31, 30, 31, 31, 30, 31, 30, 31};

#define S_MDAYS(y, m) (S_MLEN[m] + (((m) == 2 && S_LEAP(y)) ? 1 : 0))
#define S_CUML(y, k) (S_CUM[k] + (((k) >= 3 && S_LEAP(y)) ? 1 : 0))
/* day of year of y-m-d */
#define S_YDAY(y, m, d) (S_CUML(y, m) + (d))
#define S_DAISY(y, m, d) (S_JAN00(y) + S_YDAY(y, m, d))

/* ---- weekdays: Mon=1 .. Sun=7 */
/* first principles: of a day number n >= 0 (day 1 is a Monday, day 0 a Sunday) */
#define S_WDAY(n) ((((n) + 6) % 7) + 1)
#define FP_J01WD(y) S_WDAY(S_JAN00(y) + 1)
/* contract forms: via the 400-year table (lemma L_tab: == FP_J01WD for 1601..4097) */
#define S_YIDX(y) (((y) - 1601) % 400)
#define S_J01WD(y) ((int)T_J01WD[S_YIDX(y)])
/* weekday of the yd-th day of year y, yd >= -6 (lemma L_wd: == S_WDAY(S_JAN00(y)+yd)) */
#define S_WDAY_YD(y, yd) (((S_J01WD(y) + (yd) + 12) % 7) + 1)
#define S_WDAY_YMD(y, m, d) S_WDAY_YD(y, S_YDAY(y, m, d))
#define S_M01WD(y, m) S_WDAY_YD(y, S_CUML(y, m) + 1)

static inline int S_leap(int y) { return S_LEAP(y); }
static inline int S_jan00(int y) { return S_JAN00(y); }
static inline int S_ydays(int y) { return S_YDAYS(y); }
static inline int S_mdays(int y, int m) { return (m >= 1 && m <= 12) ? S_MDAYS(y, m) : 0; }
static inline int S_yday(int y, int m, int d) { return S_YDAY(y, m, d); }
static inline int S_daisy(int y, int m, int d) { return S_DAISY(y, m, d); }
static inline int S_wday(int n) { return S_WDAY(n); }
static inline int S_j01wd(int y) { return S_J01WD(y); }
static inline int S_m01wd(int y, int m) { return S_M01WD(y, m); }

/* validity */
#define V_YEAR(y) ((y) >= S_MIN_YEAR && (y) <= S_MAX_YEAR)
static inline int V_ymd(int y, int m, int d)
{ return V_YEAR(y) && m >= 1 && m <= 12 && d >= 1 && d <= S_MDAYS(y, m); }
static inline int V_yd(int y, int d)
{ return V_YEAR(y) && d >= 1 && d <= S_YDAYS(y); }
static inline int V_daisy(long long n)
{ return n >= 1 && n <= S_MAX_DAISY; }

/* relational field extraction: (y,m,d) is THE civil date of day n */
static inline int R_ymd_of(int n, int y, int m, int d)
{ return V_ymd(y, m, d) && S_DAISY(y, m, d) == n; }
static inline int R_yd_of(int n, int y, int d)
{ return V_yd(y, d) && S_JAN00(y) + d == n; }

/* n-th weekday counts: ymcw = year, month, count c (1..5), weekday w (1..7; 0 never canonical)
 * the c-th w-day of the month is day 1 + ((w - wd01) mod 7) + 7(c-1) */
static inline int S_ymcw_mday(int y, int m, int c, int w)
{ return 1 + ((w - S_M01WD(y, m) + 7) % 7) + 7 * (c - 1); }
/* number of w-days in month y-m */
static inline int S_mcnt(int y, int m, int w)
{ return (S_MDAYS(y, m) - (1 + ((w - S_M01WD(y, m) + 7) % 7))) / 7 + 1; }
static inline int V_ymcw(int y, int m, int c, int w)
{ return V_YEAR(y) && m >= 1 && m <= 12 && w >= 1 && w <= 7 && c >= 1 && c <= 5 &&
	 S_ymcw_mday(y, m, c, w) <= S_MDAYS(y, m); }

/* the civil year of day n: estimate, then correct (n/365 over-estimates by < 2 years) */
static inline int S_daisy_year(int n)
{
	int y = 1601 + n / 365;
	if (S_JAN00(y) >= n) y--;
	if (S_JAN00(y) >= n) y--;
	if (S_JAN00(y) >= n) y--;
	return (S_JAN00(y) < n && n <= S_JAN00(y + 1)) ? y : -1;
}

/* month / day-of-month of a (year, day-of-year): loop-free table walk */
static inline int S_mon_of_yday(int y, int yd)
{
	return 1 + (yd > S_CUML(y, 2)) + (yd > S_CUML(y, 3)) + (yd > S_CUML(y, 4)) + (yd > S_CUML(y, 5)) +
		(yd > S_CUML(y, 6)) + (yd > S_CUML(y, 7)) + (yd > S_CUML(y, 8)) + (yd > S_CUML(y, 9)) +
		(yd > S_CUML(y, 10)) + (yd > S_CUML(y, 11)) + (yd > S_CUML(y, 12));
}
static inline int S_mday_of_yday(int y, int yd)
{ int m = S_mon_of_yday(y, yd); return yd - S_CUML(y, m); }

/* successor relation on civil dates (for the spec lemma) */
static inline int R_succ(int y, int m, int d, int y2, int m2, int d2)
{
	if (d < S_MDAYS(y, m)) return y2 == y && m2 == m && d2 == d + 1;
	if (m < 12) return y2 == y && m2 == m + 1 && d2 == 1;
	return y2 == y + 1 && m2 == 1 && d2 == 1;
}
#endif
