/* spec/lemmas.h -- lemmas about the specification layer itself, proved by CBMC (direct mode).
 * They tie the closed forms of greg.h/iso.h to the inductive/textbook definitions. */
#ifndef VERIF_SPEC_LEMMAS_H
#define VERIF_SPEC_LEMMAS_H
#if !defined VERIF_NATIVE
/* independent civil-date day count (Hinnant's days_from_civil, era based, valid for any year >= 0) */
static long S_civil(long y, long m, long d)
{
	y -= m <= 2;
	long era = y / 400;
	long yoe = y - era * 400;
	long doy = (153 * (m + (m > 2 ? -3 : 9)) + 2) / 5 + d - 1;
	long doe = yoe * 365 + yoe / 4 - yoe / 100 + doy;
	return era * 146097 + doe;
}
static void L_anchors(void)
{
	__CPROVER_assert(S_DAISY(1601, 1, 1) == 1, "L_anchors: day 1 is 1601-01-01");
	__CPROVER_assert(S_DAISY(4095, 12, 31) == S_MAX_DAISY, "L_anchors: day 911280 is 4095-12-31");
	__CPROVER_assert(S_DAISY(1970, 1, 1) == S_UNIX_BASE, "L_anchors: unix epoch day");
	/* anchor of the weekday numbering against a date whose weekday is common knowledge:
	 * 1970-01-01 was a Thursday, 2000-01-01 a Saturday */
	__CPROVER_assert(S_WDAY(S_DAISY(1970, 1, 1)) == 4, "L_anchors: 1970-01-01 is a Thursday");
	__CPROVER_assert(S_WDAY(S_DAISY(2000, 1, 1)) == 6, "L_anchors: 2000-01-01 is a Saturday");
	__CPROVER_assert(S_WDAY(1) == 1 && S_WDAY(0) == 7 && S_WDAY(7) == 7, "L_anchors: day 1 Monday");
	/* day-number bases: Lilian = days since 1582-10-15, Matlab datenum(0001-01-01) = 367, JD 2451544.5 = 2000-01-01 0h */
	__CPROVER_assert(S_civil(1601, 1, 1) - S_civil(1582, 10, 15) == 6652 + 1, "L_anchors: LDN base");
	__CPROVER_assert(S_civil(1601, 1, 1) - S_civil(1, 1, 1) + 367 == 584754 + 1, "L_anchors: MDN base (Matlab datenum(0001-01-01) = 367)");
	__CPROVER_assert((double)S_DAISY(2000, 1, 1) + 2305812.5 == 2451544.5, "L_anchors: JDN base");
	__CPROVER_assert(S_civil(4095, 12, 31) - S_civil(1601, 1, 1) + 1 == S_MAX_DAISY, "L_anchors: range length by an independent formula");
	__CPROVER_assert(FP_ISOMON1(2020) == S_DAISY(2019, 12, 30) && FP_ISOWEEKS(2020) == 53 && FP_ISOWEEKS(2021) == 52, "L_anchors: ISO 2020");
}
/* closed form S_DAISY agrees with the inductive definition of the calendar (successor adds 1)
 * and with the independent era-based formula */
static void L_succ(int y, int m, int d, int y2, int m2, int d2)
{
	__CPROVER_assume(V_ymd(y, m, d));
	__CPROVER_assume(R_succ(y, m, d, y2, m2, d2));
	__CPROVER_assume(y2 <= 4096);
	__CPROVER_assert(S_DAISY(y2, m2, d2) == S_DAISY(y, m, d) + 1, "L_succ: consecutive civil dates are consecutive day numbers");
	__CPROVER_assert(S_civil(y, m, d) - S_civil(1601, 1, 1) + 1 == S_DAISY(y, m, d), "L_succ: agrees with era-based days_from_civil");
}
/* S_mon_of_yday/S_mday_of_yday invert S_YDAY; S_daisy_year inverts S_JAN00 */
static void L_monof(int y, int m, int d)
{
	__CPROVER_assume(V_ymd(y, m, d));
	__CPROVER_assert(S_mon_of_yday(y, S_YDAY(y, m, d)) == m, "L_monof: month of yday");
	__CPROVER_assert(S_mday_of_yday(y, S_YDAY(y, m, d)) == d, "L_monof: mday of yday");
	__CPROVER_assert(S_daisy_year(S_DAISY(y, m, d)) == y, "L_monof: year of day number");
	__CPROVER_assert(S_YDAY(y, m, d) >= 1 && S_YDAY(y, m, d) <= S_YDAYS(y), "L_monof: yday range");
}
/* the 400-year tables equal the first-principles definitions, for every year a contract can mention */
static void L_tab(int y)
{
	__CPROVER_assume(y >= 1601 && y <= 4097);
	__CPROVER_assert(S_J01WD(y) == FP_J01WD(y), "L_tab: weekday-of-Jan-1 table == first principles");
	__CPROVER_assert(S_HANG(y) == FP_HANG(y), "L_tab: hang table == first principles");
	__CPROVER_assert(S_ISOMON1(y) == FP_ISOMON1(y), "L_tab: ISO week-1 Monday");
	__CPROVER_assert(S_ISOWEEKS(y) == FP_ISOWEEKS(y), "L_tab: ISO weeks table == first principles");
	__CPROVER_assert(S_JAN00(y + 1) == S_JAN00(y) + S_YDAYS(y), "L_tab: year lengths add up");
}
/* weekday of the yd-th day of a year via the table == weekday of its day number */
static void L_wd(int y, int yd)
{
	__CPROVER_assume(y >= 1601 && y <= 4097 && yd >= -6 && yd <= 400);
	__CPROVER_assert(S_WDAY_YD(y, yd) == S_WDAY(S_JAN00(y) + yd), "L_wd: civil weekday == weekday of day number");
}
/* every valid (year, yday) pair denotes a day number inside 1..911280 */
static void L_range(int y, int yd)
{
	__CPROVER_assume(V_yd(y, yd));
	__CPROVER_assert(S_JAN00(y) + yd >= 1 && S_JAN00(y) + yd <= S_MAX_DAISY, "L_range: valid civil dates denote days 1..911280");
}
/* the year-relative denotation of an ISO week date equals the first-principles one */
static void L_ywd(int y, int c, int w)
{
	__CPROVER_assume(y >= 1601 && y <= 4096 && c >= 1 && c <= 53 && w >= 1 && w <= 7);
	__CPROVER_assert(S_ywd_daisy(y, c, w) == FP_ISOMON1(y) + 7 * (c - 1) + (w - 1), "L_ywd: year-relative ISO denotation == first principles");
}
/* ISO: week-1 Monday is within -3..+3 days of Jan 1, years have 52 or 53 weeks (first-principles forms) */
static void L_iso(int y)
{
	__CPROVER_assume(y >= 1601 && y <= 4096);
	__CPROVER_assert(FP_HANG(y) >= -3 && FP_HANG(y) <= 3, "L_iso: hang range");
	__CPROVER_assert(S_WDAY(FP_ISOMON1(y)) == 1, "L_iso: week 1 starts on a Monday");
	__CPROVER_assert(FP_ISOWEEKS(y) == 52 || FP_ISOWEEKS(y) == 53, "L_iso: 52 or 53 weeks");
	__CPROVER_assert((FP_ISOMON1(y + 1) - FP_ISOMON1(y)) % 7 == 0, "L_iso: whole weeks");
	/* the week containing the first Thursday is week 1 */
	__CPROVER_assert(FP_ISOMON1(y) + 3 > S_JAN00(y) && FP_ISOMON1(y) + 3 <= S_JAN00(y) + 7, "L_iso: first Thursday is in week 1");
}
#endif
#endif
