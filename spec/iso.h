/* spec/iso.h -- ISO 8601 week dates and the other week-count conventions,
 * from first principles (week 1 is the week containing Jan 4th / the first Thursday). */
#ifndef VERIF_SPEC_ISO_H
#define VERIF_SPEC_ISO_H
#include "greg.h"

/* day number of the Monday of ISO week 1 of ISO year y: Monday on or before Jan 4 */
#define S_ISOMON1(y) ((S_JAN00(y) + 4) - (S_WDAY(S_JAN00(y) + 4) - 1))
static inline int S_isomon1(int y) { return S_ISOMON1(y); }
#define S_ISOWEEKS(y) ((S_ISOMON1((y) + 1) - S_ISOMON1(y)) / 7)
static inline int S_isoweeks(int y) { return S_ISOWEEKS(y); }
/* dateutils' "hang": offset such that yday = 7(c-1) + w + hang; = mon1 - jan00 - 1, in -3..3 */
#define S_HANG(y) (S_ISOMON1(y) - S_JAN00(y) - 1)
static inline int S_hang(int y) { return S_HANG(y); }

static inline int S_ywd_daisy(int y, int c, int w)
{ return S_ISOMON1(y) + 7 * (c - 1) + (w - 1); }
static inline int V_ywd(int y, int c, int w)
{ return V_YEAR(y) && c >= 1 && c <= S_ISOWEEKS(y) && w >= 1 && w <= 7; }
/* (Y,W,D) is THE ISO week date of day n */
static inline int R_ywd_of(int n, int y, int c, int w)
{ return c >= 1 && c <= 53 && w >= 1 && w <= 7 && w == S_WDAY(n) &&
	 S_ISOMON1(y) <= n && n < S_ISOMON1(y + 1) && c == (n - S_ISOMON1(y)) / 7 + 1; }

/* week-of-year conventions, for day-of-year yd in year y
 * %U: week 1 starts on the first Sunday; days before are week 0
 * %W: week 1 starts on the first Monday; days before are week 0
 * %C (abs): the n-th occurrence of that weekday in the year: (yd-1)/7+1 */
static inline int S_wcnt_sun(int y, int yd)
{ /* number of Sundays among days 1..yd */
	int j01 = S_j01wd(y); int first_sun = 1 + ((7 - j01) % 7); /* yday of first Sunday */
	return yd < first_sun ? 0 : (yd - first_sun) / 7 + 1; }
static inline int S_wcnt_mon(int y, int yd)
{ int j01 = S_j01wd(y); int first_mon = 1 + ((8 - j01) % 7);
	return yd < first_mon ? 0 : (yd - first_mon) / 7 + 1; }
static inline int S_wcnt_abs(int yd) { return (yd - 1) / 7 + 1; }
#endif
