/* spec/iso.h -- ISO 8601 week dates and the other week-count conventions.
 * FP_*: from first principles (week 1 is the week containing Jan 4th / the first Thursday);
 * S_*: table forms used in contracts, proved equal to FP_* by spec lemmas on every run. */
#ifndef VERIF_SPEC_ISO_H
#define VERIF_SPEC_ISO_H
#include "greg.h"

/* first principles: day number of the Monday of ISO week 1 of ISO year y = Monday on or before Jan 4 */
#define FP_ISOMON1(y) ((S_JAN00(y) + 4) - (S_WDAY(S_JAN00(y) + 4) - 1))
#define FP_ISOWEEKS(y) ((FP_ISOMON1((y) + 1) - FP_ISOMON1(y)) / 7)
#define FP_HANG(y) (FP_ISOMON1(y) - S_JAN00(y) - 1)

/* contract forms */
/* dateutils' "hang": offset such that yday = 7(c-1) + w + hang; = mon1 - jan00 - 1, in -3..3 */
#define S_HANG(y) ((int)T_HANGWD[S_J01WD(y)])
#define S_ISOMON1(y) (S_JAN00(y) + 1 + S_HANG(y))
#define S_ISOWEEKS(y) ((int)T_NWK[S_YIDX(y)])
static inline int S_isomon1(int y) { return S_ISOMON1(y); }
static inline int S_isoweeks(int y) { return S_ISOWEEKS(y); }
static inline int S_hang(int y) { return S_HANG(y); }

/* the day an ISO week date denotes, year-relative: its Gregorian year and day-of-year.
 * raw yday relative to Jan 0 of the ISO year (may be < 1 or > number of days: then the day lies in
 * the neighbouring Gregorian year).  Only table facts and small numbers: no arithmetic on J(y+-1).
 * Lemma L_ywd: S_ywd_daisy(y,c,w) == FP_ISOMON1(y) + 7(c-1) + (w-1). */
#define S_YWD_RAWYD(y, c, w) (7 * ((c) - 1) + (w) + S_HANG(y))
static inline int S_ywd_gyear(int y, int c, int w)
{ int r = S_YWD_RAWYD(y, c, w); return r < 1 ? y - 1 : r > S_YDAYS(y) ? y + 1 : y; }
static inline int S_ywd_gyd(int y, int c, int w)
{ int r = S_YWD_RAWYD(y, c, w); return r < 1 ? r + S_YDAYS(y - 1) : r > S_YDAYS(y) ? r - S_YDAYS(y) : r; }
static inline int S_ywd_daisy(int y, int c, int w)
{ return S_JAN00(S_ywd_gyear(y, c, w)) + S_ywd_gyd(y, c, w); }
static inline int V_ywd(int y, int c, int w)
{ return V_YEAR(y) && c >= 1 && c <= S_ISOWEEKS(y) && w >= 1 && w <= 7; }
/* (Y,W,D) is THE ISO week date of day n */
static inline int R_ywd_of(int n, int y, int c, int w)
{ return y >= 1601 && y <= 4096 && c >= 1 && c <= S_ISOWEEKS(y) && w >= 1 && w <= 7 && S_ywd_daisy(y, c, w) == n; }

/* week-of-year conventions, for day-of-year yd in year y
 * %U: week 1 starts on the first Sunday; days before are week 0
 * %W: week 1 starts on the first Monday; days before are week 0
 * %C (abs): the n-th occurrence of that weekday in the year: (yd-1)/7+1 */
static inline int S_wcnt_sun(int y, int yd)
{	int j01 = S_J01WD(y); int first_sun = 1 + ((7 - j01) % 7); /* yday of first Sunday */
	return yd < first_sun ? 0 : (yd - first_sun) / 7 + 1; }
static inline int S_wcnt_mon(int y, int yd)
{	int j01 = S_J01WD(y); int first_mon = 1 + ((8 - j01) % 7);
	return yd < first_mon ? 0 : (yd - first_mon) / 7 + 1; }
static inline int S_wcnt_abs(int yd) { return (yd - 1) / 7 + 1; }
#endif
