/* spec/tz.h -- well-formedness of a loaded zone (struct zif_s of lib/tzraw.c) and the
 * abstract lookup "last transition <= t".  Included after the real TU (needs struct zif_s). */
#ifndef VERIF_SPEC_TZ_H
#define VERIF_SPEC_TZ_H
#ifndef TZ_NMAX
# define TZ_NMAX 8   /* bound on the number of transitions of the symbolic zone (table SIZE bound, stated in the evidence) */
#endif
#define TZ_NTY 16      /* bound on the number of local time types of the symbolic zone */
#define TZ_TMAX 1000000000000LL  /* |stamps| bound keeping t +- offset inside int64 */

/* sizes and freshness (memory shape); usable only in requires clauses */
#define WF_SHAPE(z) \
	(__CPROVER_is_fresh((z), sizeof(struct zif_s)) && (z)->ntr <= TZ_NMAX && (z)->nty >= 1 && (z)->nty <= TZ_NTY && (z)->cz == TZCZ_UNK && \
	 __CPROVER_is_fresh((z)->trs, TZ_NMAX * sizeof(stamp_t)) && __CPROVER_is_fresh((z)->tys, TZ_NMAX * sizeof(zty_t)) && \
	 __CPROVER_is_fresh((z)->ofs, TZ_NTY * sizeof(zof_t)))
/* content: transitions strictly increasing, type indices inside the offset table, offsets plausible */
#define WF_CONTENT(z) \
	(__CPROVER_forall { int wk; (0 <= wk && wk < TZ_NMAX - 1) ==> ((size_t)(wk + 1) < (z)->ntr ==> (z)->trs[wk] < (z)->trs[wk + 1]) } && \
	 __CPROVER_forall { int wj; (0 <= wj && wj < TZ_NMAX) ==> ((size_t)wj < (z)->ntr ==> (z)->tys[wj] < (z)->nty) } && \
	 __CPROVER_forall { int wi; (0 <= wi && wi < TZ_NTY) ==> ((size_t)wi < (z)->nty ==> ((z)->ofs[wi] > -100000 && (z)->ofs[wi] < 100000)) })
/* zif_trans as a term: clamped table read */
#define TZ_TR(z, n) (((z)->ntr == 0 || (n) < 0) ? STAMP_MIN : ((n) >= (int)(z)->ntr ? (z)->trs[(z)->ntr - 1] : (z)->trs[n]))
/* i is the index of the last transition <= t (needs trs[0] <= t) */
#define TZ_IS_IDX(z, t, i) ((i) >= 0 && (i) < (int)(z)->ntr && (z)->trs[i] <= (t) && ((i) + 1 >= (int)(z)->ntr || (t) < (z)->trs[(i) + 1]))
#endif
