/* spec/abs.h -- the abstraction function: which day (1 = 1601-01-01) a value denotes,
 * and the canonical-form predicates, per representation.  Needs the real types
 * (included after date-core.h is visible, i.e. after the real TU). */
#ifndef VERIF_SPEC_ABS_H
#define VERIF_SPEC_ABS_H
#include "greg.h"
#include "iso.h"

/* Every civil value denotes a day given as the pair (Gregorian year GY, day-of-year GYD);
 * its day number is A = S_JAN00(GY) + GYD.  Contracts between civil calendars state equality of
 * the PAIRS (small numbers and table facts only); equality of day numbers follows because A is a
 * function of the pair (and is injective on valid pairs: lemma L_monof).  Day-number types state A. */
#define SAME(T1, a, T2, b) (GY_##T1(a) == GY_##T2(b) && GYD_##T1(a) == GYD_##T2(b))
/* ymd */
#define GY_YMD(x) ((int)(x).y)
#define GYD_YMD(x) S_YDAY((int)(x).y, (int)(x).m, (int)(x).d)
#define A_YMD(x) S_DAISY((int)(x).y, (int)(x).m, (int)(x).d)
#define V_YMD(x) (V_ymd((int)(x).y, (int)(x).m, (int)(x).d) && ((x).u >> 22) == 0)
/* lazily-ultimo'd ymd: day may exceed the month length (up to 31) before dt_dfixup */
#define L_YMD(x) (V_YEAR((int)(x).y) && (x).m >= 1 && (x).m <= 12 && (x).d >= 1 && (x).d <= 31 && ((x).u >> 22) == 0)
/* yd */
#define GY_YD(x) ((int)(x).y)
#define GYD_YD(x) ((int)(x).d)
#define A_YD(x) (S_JAN00((int)(x).y) + (int)(x).d)
#define V_YD(x) (V_yd((int)(x).y, (int)(x).d))
/* ymcw */
#define GY_YMCW(x) ((int)(x).y)
#define GYD_YMCW(x) S_YDAY((int)(x).y, (int)(x).m, S_ymcw_mday((int)(x).y, (int)(x).m, (int)(x).c, (int)(x).w))
#define A_YMCW(x) (S_JAN00(GY_YMCW(x)) + GYD_YMCW(x))
#define V_YMCW(x) (V_ymcw((int)(x).y, (int)(x).m, (int)(x).c, (int)(x).w) && ((x).u >> 22) == 0)
/* ywd (ISO 8601), hang must be the canonical one for the year */
#define GY_YWD(x) S_ywd_gyear((int)(x).y, (int)(x).c, (int)(x).w)
#define GYD_YWD(x) S_ywd_gyd((int)(x).y, (int)(x).c, (int)(x).w)
#define A_YWD(x) S_ywd_daisy((int)(x).y, (int)(x).c, (int)(x).w)
/* valid ISO week date of a day inside the supported range (4095-W52-7 is 4096-01-01: outside) */
/* ISO-valid week date with canonical hang, without the range condition on its Gregorian year */
#define V_YWD0(x) (V_ywd((int)(x).y, (int)(x).c, (int)(x).w) && (int)(x).hang == S_HANG((int)(x).y) && ((x).u >> 25) == 0)
#define V_YWD(x) (V_ywd((int)(x).y, (int)(x).c, (int)(x).w) && (int)(x).hang == S_HANG((int)(x).y) && ((x).u >> 25) == 0 && V_YEAR(GY_YWD(x)))

/* day-number bases (independent constants: civil dates of the epochs)
 * LDN: day 1 = 1582-10-15; MDN: day 1 = 0000-01-01 (proleptic); JDN: noon-based, JD 0 = -4713-11-24
 * all three are anchored by spec lemmas (obligations/00_spec_lemmas.py) */
#define S_LDN_BASE 6652      /* ldn(n)  = n + 6652     */
#define S_MDN_BASE 584754    /* mdn(n)  = n + 584754   */
#define S_JDN_BASE 2305812.5f /* jdn(n) = n + 2305812.5 */

/* the sum type struct dt_d_s */
static inline int V_d(struct dt_d_s d)
{
	switch (d.typ) {
	case DT_YMD: return V_YMD(d.ymd);
	case DT_YMCW: return V_YMCW(d.ymcw);
	case DT_YWD: return V_YWD(d.ywd);
	case DT_YD: return V_YD(d.yd);
	case DT_DAISY: return V_daisy(d.daisy);
	case DT_LDN: return d.ldn > S_LDN_BASE && d.ldn <= S_LDN_BASE + S_MAX_DAISY;
	case DT_MDN: return d.mdn > S_MDN_BASE && d.mdn <= S_MDN_BASE + S_MAX_DAISY;
	default: return 0;
	}
}
#define CIVIL_T(t) ((t) == DT_YMD || (t) == DT_YMCW || (t) == DT_YWD || (t) == DT_YD)
static inline int GY_d(struct dt_d_s d)
{
	switch (d.typ) {
	case DT_YMD: return GY_YMD(d.ymd);
	case DT_YMCW: return GY_YMCW(d.ymcw);
	case DT_YWD: return GY_YWD(d.ywd);
	case DT_YD: return GY_YD(d.yd);
	default: return 0;
	}
}
static inline int GYD_d(struct dt_d_s d)
{
	switch (d.typ) {
	case DT_YMD: return GYD_YMD(d.ymd);
	case DT_YMCW: return GYD_YMCW(d.ymcw);
	case DT_YWD: return GYD_YWD(d.ywd);
	case DT_YD: return GYD_YD(d.yd);
	default: return 0;
	}
}
static inline int A_d(struct dt_d_s d)
{
	switch (d.typ) {
	case DT_YMD: return A_YMD(d.ymd);
	case DT_YMCW: return A_YMCW(d.ymcw);
	case DT_YWD: return A_YWD(d.ywd);
	case DT_YD: return A_YD(d.yd);
	case DT_DAISY: return (int)d.daisy;
	case DT_LDN: return (int)d.ldn - S_LDN_BASE;
	case DT_MDN: return (int)d.mdn - S_MDN_BASE;
	default: return 0;
	}
}
/* weekday of the day a value denotes, in the cheapest equivalent form per representation
 * (equal to S_WDAY(A_d(d)) by spec lemma L_wd and the validity predicates) */
static inline int W_d(struct dt_d_s d)
{
	switch (d.typ) {
	case DT_YMD: return S_WDAY_YMD((int)d.ymd.y, (int)d.ymd.m, (int)d.ymd.d);
	case DT_YMCW: return (int)d.ymcw.w;
	case DT_YWD: return (int)d.ywd.w;
	case DT_YD: return S_WDAY_YD((int)d.yd.y, (int)d.yd.d);
	case DT_DAISY: return S_WDAY((int)d.daisy);
	default: return 0;
	}
}
/* "denote the same day": pair equality between civil values, day-number equality otherwise */
#define SAME_T_D(T, r, d) (CIVIL_T((d).typ) ? (GY_##T(r) == GY_d(d) && GYD_##T(r) == GYD_d(d)) : A_##T(r) == A_d(d))
static inline int SAME_d(struct dt_d_s a, struct dt_d_s b)
{
	if (CIVIL_T(a.typ) && CIVIL_T(b.typ)) return GY_d(a) == GY_d(b) && GYD_d(a) == GYD_d(b);
	return A_d(a) == A_d(b);
}
#endif
